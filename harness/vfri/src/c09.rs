//! C09 — FRI rejects far-from-low-degree data and inconsistent openings.

use vcore::*;
use vfield::*;
use vhash::*;
use winter_fri::folding::fold_positions;
use winter_fri::FriProof;
use winter_math::{fft, FieldElement, StarkField};
use winter_utils::Deserializable;
use winter_utils::Serializable;

use crate::common::*;

pub fn prop() -> Prop {
    Prop {
        id: "C09",
        level: "fault_enumeration",
        rule: "fault cases over the C08 parameter space: (a) evaluations of a polynomial of degree in (bound, N) with non-zero leading coefficient, or of a random function, proved honestly under the unchanged declared bound (this is also the 'declared bound below the true degree' case); (b) one revealed layer value replaced by another field element; (c) one remainder coefficient replaced; (d) adaptive remainder substitution R' = R + c*prod(x - x_i) over the distinct final-layer query points; (e) adaptive coset substitution adding c*(x - alpha)*prod(x - x_q) to one queried coset (keeps the queried entries and the folded value); (f) one layer commitment replaced; (h) one evaluation claimed by the caller at a queried position replaced (first or later member of its coset in the position list); (g) sub-check understated_bounds: an honest proof for a polynomial of true degree D <= 2^k - 1 verified under every kind of declared bound d < D with the same domain (2^(k-1) < d, d + 1 not a power of two, half of them with d + 1 divisible by folding^layers so that no DegreeTruncation rejection hides the remainder-degree check), including D = d + 1. Oracle: FriVerifier::new(..).and_then(verify) is Err through DefaultVerifierChannel AND through a channel implementing only the required methods of the public VerifierChannel trait (what a downstream verifier's channel looks like); the unmodified proof must verify first. Non-trivial = the honest counterpart verifies (faults b-f) and the adaptive invariants were checked by the harness; distinct = hash of (instance, parameters, fault, positions).",
        assumptions: vec![
            "(a) is probabilistic: the honest prover truncates the over-degree remainder, a false accept needs the truncated part to vanish at a queried point, probability <= N/|E| <= 2^-42 per case",
            "adaptive substitutions are computed from the replayed public coin (same reseed/draw schedule as FriVerifier::new) and are only mounted when feasible (enough remainder coefficients / enough unqueried entries in a coset); feasibility is counted",
        ],
        subs: vec![Sub::gen("faults", faults, 240, 60_000, 1_500_000), Sub::gen("understated_bounds", understated, 120, 20_000, 500_000)],
        required: vec!["fault:over_degree", "fault:random_function", "fault:layer_value", "fault:remainder_coefficient", "fault:adaptive_remainder", "fault:adaptive_coset", "fault:commitment", "fault:claimed_evaluation", "claimed_evaluation_later_in_its_coset", "slightly_over_bound", "understated:divisible_by_folding_power", "understated:bound_plus_one_not_power_of_two", "understated:true_degree_just_above", "ext_2", "ext_3", "folding_4", "folding_16"],
        required_thorough: vec![],
    }
}

fn faults(s: &mut Src, rec: &mut Rec) -> CaseResult {
    let idx = s.below(NUM_HASHERS);
    with_hasher!(idx, X, {
        let cube = <<X as HS>::S as Spec>::CUBE.is_some();
        match s.below(3) {
            0 => run::<X, <<X as HS>::S as Spec>::B>(s, rec),
            1 => run::<X, Q<<<X as HS>::S as Spec>::B>>(s, rec),
            _ if cube => run::<X, C<<<X as HS>::S as Spec>::B>>(s, rec),
            _ => run::<X, Q<<<X as HS>::S as Spec>::B>>(s, rec),
        }
    })
}

fn nonzero<S: Spec, E: FieldElement<BaseField = S::B>>(s: &mut Src) -> E {
    loop {
        let (e, _) = gen_elem::<S, E>(s);
        if e != E::ZERO {
            return e;
        }
        if s.exhausted() {
            return E::ONE;
        }
    }
}

fn poly_from_roots<E: FieldElement>(roots: &[E]) -> Vec<E> {
    let mut p = vec![E::ONE];
    for r in roots {
        let mut q = vec![E::ZERO; p.len() + 1];
        for (i, c) in p.iter().enumerate() {
            q[i + 1] += *c;
            q[i] -= *c * *r;
        }
        p = q;
    }
    p
}
fn eval<E: FieldElement>(p: &[E], x: E) -> E {
    p.iter().rev().fold(E::ZERO, |acc, c| acc * x + *c)
}

fn run<X: HS, E: FieldElement<BaseField = <X::S as Spec>::B>>(s: &mut Src, rec: &mut Rec) -> CaseResult {
    let name = X::NAME;
    rec.class(&format!("ext_{}", E::EXTENSION_DEGREE));
    let max_log = if X::is_rescue() { 10 } else { 12 }; // < 13: the huge-remainder family (C08 known finding) is not generated here
    // adaptive attacks need few queries, many remainder coefficients, wide cosets: bias towards them
    let mut p = gen_params(s, max_log, rec);
    let kind = s.below(8);
    if kind >= 3 && p.rem_max_degree > 255 {
        p = Params { log_bound: 6, blowup: 4, folding: 4, rem_max_degree: 7 };
    }
    if p.remainder_len() * E::ELEMENT_BYTES > u16::MAX as usize {
        // known finding of C08 (remainder length stored as u16): excluded by construction, counted
        rec.class("excluded_known:remainder_longer_than_65535_bytes");
        return Ok(());
    }
    rec.class(&format!("folding_{}", p.folding));
    let kname = ["over_degree", "random_function", "layer_value", "remainder_coefficient", "adaptive_remainder", "adaptive_coset", "commitment", "claimed_evaluation"][kind as usize];
    let n = p.domain();
    let layers = p.num_layers();
    let positions = {
        let mut v = gen_positions(s, n, rec);
        if (4..=6).contains(&kind) {
            v.truncate(s.range(1, 4) as usize);
        }
        v
    };
    let ctx = format!("{name}, E degree {}, bound {}, blowup {}, folding {}, remainder max degree {}, {layers} layers, positions {:?}", E::EXTENSION_DEGREE, p.bound(), p.blowup, p.folding, p.rem_max_degree, &positions[..positions.len().min(8)]);
    rec.set_fp(&(name, E::EXTENSION_DEGREE, p.log_bound, p.blowup, p.folding, p.rem_max_degree, kind, &positions, s.consumed()));
    rec.describe(|| json!({"instance": name, "extension_degree": E::EXTENSION_DEGREE, "bound": p.bound(), "blowup": p.blowup, "folding": p.folding, "remainder_max_degree": p.rem_max_degree, "layers": layers, "fault": kname, "positions": positions}));
    let reject = |v: Verdict, what: &str, rec: &mut Rec| -> CaseResult {
        match v {
            Verdict::Accept => Err(Fail::new(format!("fri-accepts:{kname}"), format!("FRI verifier ACCEPTED {what} ({ctx})"))),
            Verdict::Panic(pn) => Err(Fail::new(format!("verifier-{}", pn.key()), format!("FRI verifier panicked on {what}: {} at {} ({ctx})", pn.message, pn.location))),
            Verdict::Reject(e) => {
                let dbg = format!("{e:?}");
                rec.class(&format!("rejected_with:{}", dbg.split('(').next().unwrap()));
                Ok(())
            },
            Verdict::ChannelError(_) => {
                rec.class("rejected_with:channel_error");
                Ok(())
            },
        }
    };

    if kind <= 1 {
        // (a) not low degree: evaluations over the whole domain of a polynomial of degree d in (bound, N)
        let evals: Vec<E> = if kind == 0 {
            let d = match s.below(3) {
                0 => {
                    rec.class("slightly_over_bound");
                    p.bound() + 1 + s.below(3.min((n - p.bound() - 1) as u64)) as usize
                },
                1 => n - 1,
                _ => p.bound() + 1 + s.below((n - p.bound() - 1) as u64) as usize,
            }
            .min(n - 1);
            let mut mix = Mix(s.u64());
            let mut c = vec![E::ZERO; n];
            for x in c.iter_mut().take(d + 1) {
                *x = mix.elem::<X::S, E>().0;
            }
            c[d] = nonzero::<X::S, E>(s);
            let tw = fft::get_twiddles::<<X::S as Spec>::B>(n);
            fft::evaluate_poly_with_offset(&c, &tw, <<X::S as Spec>::B as StarkField>::GENERATOR, 1)
        } else {
            let mut mix = Mix(s.u64());
            (0..n).map(|_| mix.elem::<X::S, E>().0).collect()
        };
        rec.class(&format!("fault:{kname}"));
        rec.nontrivial();
        let h = match prove::<X, E>(&p, &evals, &positions) {
            Ok(h) => h,
            Err(_) => {
                // the prover failing to produce a proof is an acceptable outcome
                rec.class("prover_declined");
                return Ok(());
            },
        };
        let q: Vec<E> = positions.iter().map(|i| evals[*i]).collect();
        return reject(verify_all::<X, E>(&p, p.bound(), h.proof, &h.commitments, &q, &positions, false), "a proof for evaluations that are not of a polynomial within the declared bound", rec);
    }

    // (b)-(f): start from an honest proof that verifies
    let (coeffs, _) = gen_poly::<X::S, E>(s, p.bound(), rec);
    let evals = evaluate::<X::S, E>(&coeffs, p.blowup);
    let h = prove::<X, E>(&p, &evals, &positions).map_err(|pn| Fail::new(format!("prover-{}", pn.key()), format!("FRI prover panicked: {} ({ctx})", pn.message)))?;
    let q: Vec<E> = positions.iter().map(|i| evals[*i]).collect();
    match verify_all::<X, E>(&p, p.bound(), h.proof.clone(), &h.commitments, &q, &positions, true) {
        Verdict::Accept => {},
        other => {
            // C08's subject; here the case is simply not usable
            rec.class("honest_counterpart_not_accepted");
            let _ = other;
            return Ok(());
        },
    }
    if kind == 7 {
        // (h) one evaluation CLAIMED by the caller at a queried position differs from the committed
        // function (the proof itself is untouched); any member of a coset, first or later in the list
        let k = s.below(q.len() as u64) as usize;
        let mut q2 = q.clone();
        q2[k] += nonzero::<X::S, E>(s);
        // the same position may occur twice in the list: then both claims must be changed consistently
        for (m, pos) in positions.iter().enumerate() {
            if *pos == positions[k] {
                q2[m] = q2[k];
            }
        }
        let coset = n / p.folding;
        let shares_coset_with_earlier = positions[..k].iter().any(|x| x % coset == positions[k] % coset && *x != positions[k]);
        rec.class_if(shares_coset_with_earlier, "claimed_evaluation_later_in_its_coset");
        rec.class(&format!("fault:{kname}"));
        rec.nontrivial();
        return reject(verify_all::<X, E>(&p, p.bound(), h.proof, &h.commitments, &q2, &positions, false), &format!("the evaluation claimed at position {} (#{k} of the list) replaced by another value", positions[k]), rec);
    }
    let bytes = h.proof.to_bytes();
    let Some(lay) = layout(&bytes) else {
        return Err(Fail::new("harness-fri-layout", format!("cannot map the FRI proof bytes ({ctx})")));
    };
    let eb = E::ELEMENT_BYTES;
    // positions and x-coordinates per layer, exactly as the verifier derives them
    let g0 = <<X::S as Spec>::B as StarkField>::get_root_of_unity(n.ilog2());
    let offset = <<X::S as Spec>::B as StarkField>::GENERATOR;
    let mut layer_positions: Vec<Vec<usize>> = vec![positions.clone()];
    let mut dom = n;
    for _ in 0..layers {
        let f = fold_positions(layer_positions.last().unwrap(), dom, p.folding);
        layer_positions.push(f);
        dom /= p.folding;
    }
    let mut mutated = bytes.clone();
    let mut commitments = h.commitments.clone();
    let what: String;
    match kind {
        2 => {
            if layers == 0 {
                rec.class("infeasible:no_layers");
                return Ok(());
            }
            let l = s.below(layers as u64) as usize;
            let r = lay.layers[l].0.clone();
            let count = r.len() / eb;
            let k = s.below(count as u64) as usize;
            let old: E = E::read_from_bytes(&bytes[r.start + k * eb..r.start + (k + 1) * eb]).unwrap();
            let new = old + nonzero::<X::S, E>(s);
            mutated[r.start + k * eb..r.start + (k + 1) * eb].copy_from_slice(&new.to_bytes());
            what = format!("a proof whose layer {l} value #{k} was replaced");
        },
        3 => {
            let r = lay.remainder.clone();
            let count = r.len() / eb;
            let k = s.below(count as u64) as usize;
            let old: E = E::read_from_bytes(&bytes[r.start + k * eb..r.start + (k + 1) * eb]).unwrap();
            let new = old + nonzero::<X::S, E>(s);
            mutated[r.start + k * eb..r.start + (k + 1) * eb].copy_from_slice(&new.to_bytes());
            what = format!("a proof whose remainder coefficient #{k} was replaced");
        },
        4 => {
            // adaptive remainder: agree with the honest remainder at every queried final-layer point
            let mut finals = layer_positions[layers].clone();
            finals.sort();
            finals.dedup();
            let r = lay.remainder.clone();
            let rem: Vec<E> = bytes_to_elems::<E>(&bytes[r.clone()]);
            if finals.len() > rem.len() - 1 {
                rec.class("infeasible:adaptive_remainder");
                return Ok(());
            }
            let gf = g0.exp_vartime(((n / dom) as u64).into());
            let xs: Vec<E> = finals.iter().map(|i| E::from(offset * gf.exp_vartime((*i as u64).into()))).collect();
            let v = poly_from_roots(&xs);
            let c = nonzero::<X::S, E>(s);
            // remainder is sent highest coefficient first
            let mut low: Vec<E> = rem.iter().rev().copied().collect();
            for (i, vc) in v.iter().enumerate() {
                low[i] += c * *vc;
            }
            // invariant that makes the substitution adaptive
            let old_low: Vec<E> = rem.iter().rev().copied().collect();
            for x in &xs {
                if eval(&low, *x) != eval(&old_low, *x) {
                    return Err(Fail::new("harness-adaptive-invariant", "substituted remainder does not agree at a queried point".to_string()));
                }
            }
            let new_rem: Vec<E> = low.iter().rev().copied().collect();
            if new_rem == rem {
                return Ok(());
            }
            mutated[r].copy_from_slice(&elems_to_bytes(&new_rem));
            what = format!("a proof whose remainder was replaced by a different polynomial of the same length that agrees with the committed one at all {} queried final-layer points", xs.len());
        },
        5 => {
            if layers == 0 {
                rec.class("infeasible:no_layers");
                return Ok(());
            }
            let nf = p.folding;
            let l = s.below(layers as u64) as usize;
            let dom_l = n / nf.pow(l as u32);
            let row_length = dom_l / nf;
            let folded = &layer_positions[l + 1];
            let row = s.below(folded.len() as u64) as usize;
            let fp = folded[row];
            let mut queried: Vec<usize> = layer_positions[l].iter().filter(|q| *q % row_length == fp).map(|q| q / row_length).collect();
            queried.sort();
            queried.dedup();
            if queried.len() + 1 > nf - 1 {
                rec.class("infeasible:adaptive_coset");
                return Ok(());
            }
            let alphas: Vec<E> = replay_alphas::<X, E>(&h.commitments);
            let alpha = alphas[l];
            let g_l = g0.exp_vartime(((n / dom_l) as u64).into());
            let xe = g_l.exp_vartime((fp as u64).into()) * offset;
            let xj: Vec<E> = (0..nf).map(|j| E::from(xe * g0.exp_vartime(((n / nf * j) as u64).into()))).collect();
            let mut roots = vec![alpha];
            roots.extend(queried.iter().map(|j| xj[*j]));
            let delta = poly_from_roots(&roots);
            let c = nonzero::<X::S, E>(s);
            let r = lay.layers[l].0.clone();
            let start = r.start + row * nf * eb;
            let vals: Vec<E> = bytes_to_elems::<E>(&bytes[start..start + nf * eb]);
            let new_vals: Vec<E> = (0..nf).map(|j| vals[j] + c * eval(&delta, xj[j])).collect();
            for j in &queried {
                if new_vals[*j] != vals[*j] {
                    return Err(Fail::new("harness-adaptive-invariant", "coset substitution changed a queried entry".to_string()));
                }
            }
            if new_vals == vals {
                return Ok(());
            }
            mutated[start..start + nf * eb].copy_from_slice(&elems_to_bytes(&new_vals));
            what = format!("a proof whose layer {l} coset at folded position {fp} was replaced by values with the same queried entries and the same folded value");
        },
        _ => {
            let k = s.below(commitments.len() as u64) as usize;
            let other = hash_elems::<X, E>(&[nonzero::<X::S, E>(s)]);
            if other == commitments[k] {
                return Ok(());
            }
            commitments[k] = other;
            what = format!("a proof verified against a list of commitments whose entry #{k} was replaced");
        },
    }
    rec.class(&format!("fault:{kname}"));
    rec.nontrivial();
    let proof = match FriProof::read_from_bytes(&mutated) {
        Ok(pf) => pf,
        Err(e) => return Err(Fail::new("harness-fri-reencode", format!("mutated FRI proof does not decode: {e}"))),
    };
    reject(verify_all::<X, E>(&p, p.bound(), proof, &commitments, &q, &positions, false), &what, rec)
}


// (g) UNDERSTATED DECLARED BOUNDS (any d, not only 2^j - 1)
// ================================================================================================

fn understated(s: &mut Src, rec: &mut Rec) -> CaseResult {
    let idx = s.below(NUM_HASHERS);
    with_hasher!(idx, X, {
        let cube = <<X as HS>::S as Spec>::CUBE.is_some();
        match s.below(3) {
            0 => run_understated::<X, <<X as HS>::S as Spec>::B>(s, rec),
            1 => run_understated::<X, Q<<<X as HS>::S as Spec>::B>>(s, rec),
            _ if cube => run_understated::<X, C<<<X as HS>::S as Spec>::B>>(s, rec),
            _ => run_understated::<X, Q<<<X as HS>::S as Spec>::B>>(s, rec),
        }
    })
}

fn run_understated<X: HS, E: FieldElement<BaseField = <X::S as Spec>::B>>(s: &mut Src, rec: &mut Rec) -> CaseResult {
    let name = X::NAME;
    rec.class(&format!("ext_{}", E::EXTENSION_DEGREE));
    let max_log = if X::is_rescue() { 10 } else { 12 };
    let mut p = gen_params(s, max_log, rec);
    if p.log_bound < 4 || p.remainder_len() * E::ELEMENT_BYTES > u16::MAX as usize {
        p = Params { log_bound: 7, blowup: 8, folding: s.pick_copy(&[2usize, 4]), rem_max_degree: 7 };
    }
    rec.class(&format!("folding_{}", p.folding));
    let full = p.bound() + 1; // 2^k
    let layers = p.num_layers();
    let unit = p.folding.pow(layers as u32); // d + 1 must be a multiple of this to avoid DegreeTruncation
    // declared bound d with 2^(k-1) < d < 2^k - 1 (same domain: next_power_of_two(d) = 2^k)
    let lo = full / 2 + 1;
    let hi = full - 2;
    let d = if s.bool() && full / unit >= 2 {
        // d + 1 = t * unit with rem_len/2 < t < rem_len
        let r = full / unit;
        let t = if r / 2 + 1 <= r - 1 { s.range((r / 2 + 1) as u64, (r - 1) as u64) as usize } else { r - 1 };
        let d = t * unit - 1;
        if d >= lo && d <= hi {
            rec.class("understated:divisible_by_folding_power");
        }
        d.clamp(lo, hi)
    } else {
        s.range(lo as u64, hi as u64) as usize
    };
    rec.class_if(!(d + 1).is_power_of_two(), "understated:bound_plus_one_not_power_of_two");
    // true degree D in (d, 2^k - 1]
    let dd = match s.below(3) {
        0 => {
            rec.class("understated:true_degree_just_above");
            d + 1
        },
        1 => full - 1,
        _ => s.range(d as u64 + 1, full as u64 - 1) as usize,
    };
    let positions = gen_positions(s, p.domain(), rec);
    let ctx = format!("{name}, E degree {}, domain {} (bound+1 = {full}), blowup {}, folding {}, remainder max degree {}, {layers} layers, true degree {dd}, declared bound {d}", E::EXTENSION_DEGREE, p.domain(), p.blowup, p.folding, p.rem_max_degree);
    rec.set_fp(&(name, E::EXTENSION_DEGREE, p.log_bound, p.blowup, p.folding, p.rem_max_degree, d, dd, &positions));
    rec.describe(|| json!({"instance": name, "extension_degree": E::EXTENSION_DEGREE, "domain": p.domain(), "blowup": p.blowup, "folding": p.folding, "remainder_max_degree": p.rem_max_degree, "layers": layers, "true_degree": dd, "declared_bound": d, "positions": positions}));
    let mut mix = Mix(s.u64());
    let mut c = vec![E::ZERO; full];
    for x in c.iter_mut().take(dd + 1) {
        *x = mix.elem::<X::S, E>().0;
    }
    c[dd] = nonzero::<X::S, E>(s);
    let evals = evaluate::<X::S, E>(&c, p.blowup);
    let h = match prove::<X, E>(&p, &evals, &positions) {
        Ok(h) => h,
        Err(pn) => return Err(Fail::new(format!("harness-prover-{}", pn.key()), format!("FRI prover panicked on a polynomial within the domain's bound ({ctx}): {}", pn.message))),
    };
    let q: Vec<E> = positions.iter().map(|i| evals[*i]).collect();
    // sanity: under the true bound 2^k - 1 the proof verifies
    match verify_all::<X, E>(&p, p.bound(), h.proof.clone(), &h.commitments, &q, &positions, true) {
        Verdict::Accept => {},
        other => return Err(Fail::new("harness-honest-baseline", format!("baseline proof does not verify under the full bound: {other:?} ({ctx})"))),
    }
    rec.nontrivial();
    match verify_all::<X, E>(&p, d, h.proof, &h.commitments, &q, &positions, false) {
        Verdict::Accept => Err(Fail::new("fri-accepts:understated_bound", format!("FRI verifier ACCEPTED a polynomial of degree {dd} under the declared bound {d} ({ctx})"))),
        Verdict::Panic(pn) => Err(Fail::new(format!("verifier-{}", pn.key()), format!("FRI verifier panicked under an understated bound: {} at {} ({ctx})", pn.message, pn.location))),
        Verdict::Reject(e) => {
            let dbg = format!("{e:?}");
            rec.class(&format!("rejected_with:{}", dbg.split('(').next().unwrap()));
            Ok(())
        },
        Verdict::ChannelError(_) => {
            rec.class("rejected_with:channel_error");
            Ok(())
        },
    }
}
