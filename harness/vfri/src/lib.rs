//! C08 (FRI completeness) and C09 (FRI rejection).

use vcore::*;

pub mod common;
pub mod c08;
pub mod c09;

pub fn props() -> Vec<Prop> {
    vref::field::startup_selfcheck();
    vec![c08::prop(), c09::prop()]
}
