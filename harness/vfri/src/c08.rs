//! C08 — FRI accepts every evaluation vector of a low-degree polynomial.

use vcore::*;
use vfield::*;
use vhash::*;
use winter_math::FieldElement;

use crate::common::*;

pub fn prop() -> Prop {
    Prop {
        id: "C08",
        level: "exploration",
        rule: "case = (hasher/field instance among 12; E in {base, quadratic, cubic where supported}; bound+1 = 2^3..2^12 with domain <= 2^14 (2^17 thorough); blowup 2..128; folding 2/4/8/16; remainder degree 2^r-1 <= 255; configurations with degree truncation are excluded by construction and counted; polynomial degree in {zero, 0, 1, bound/2, bound-1, bound, random}; position multiset of size 1..64 with duplicates / all equal / one coset / extremes). Sub-check prover_reuse (model-based history): ONE FriProver (fixed options) builds 2-4 proofs in a row for domains that grow, shrink or repeat (the prover documents that build_proof clears its state so that another proof can be generated); every proof must verify and be byte-identical to the proof a fresh prover builds for the same input. Oracle: FriVerifier::new + verify = Ok on the prover's proof and again on FriProof::read_from(to_bytes), each through DefaultVerifierChannel and through a channel that implements only the required methods of the public VerifierChannel trait. Non-trivial = at least one FRI layer, or zero layers with remainder degree = bound; distinct = hash of (instance, parameters, polynomial seed, positions).",
        assumptions: vec![
            "FRI configurations for which some folded layer would have degree+1 not divisible by the folding factor are outside the supported set (the verifier documents DegreeTruncation as a deliberate rejection, the prover cannot build such layers)",
            "evaluations are produced with fft::evaluate_poly_with_offset (C12's subject) over the offset domain the FRI options document (GENERATOR)",
        ],
        subs: vec![Sub::gen("honest", honest, 200, 30_000, 600_000), Sub::gen("prover_reuse", reuse, 400, 4_000, 100_000)],
        required: vec!["layers_ge_1", "zero_layers_remainder_eq_bound", "ext_2", "ext_3", "folding_2", "folding_4", "folding_8", "folding_16", "poly_zero", "poly_degree_eq_bound", "poly_lower_degree", "positions_with_duplicates", "remainder_degree_0", "remainder_degree_255", "hasher:Rp62_248", "hasher:RpJive64_256", "hasher:Blake3_192<f128>", "reuse:growing_domain", "reuse:shrinking_domain", "reuse:same_domain"],
        required_thorough: vec![],
    }
}

fn honest(s: &mut Src, rec: &mut Rec) -> CaseResult {
    let idx = s.below(NUM_HASHERS);
    with_hasher!(idx, X, {
        let cube = <<X as HS>::S as Spec>::CUBE.is_some();
        match s.below(3) {
            0 => run::<X, <<X as HS>::S as Spec>::B>(s, rec),
            1 => run::<X, Q<<<X as HS>::S as Spec>::B>>(s, rec),
            _ if cube => run::<X, C<<<X as HS>::S as Spec>::B>>(s, rec),
            _ => run::<X, Q<<<X as HS>::S as Spec>::B>>(s, rec),
        }
    })
}

fn run<X: HS, E: FieldElement<BaseField = <X::S as Spec>::B>>(s: &mut Src, rec: &mut Rec) -> CaseResult {
    let thorough = std::env::var("VERIF_TIER").map(|t| t == "thorough").unwrap_or(false);
    let name = X::NAME;
    rec.class(&format!("hasher:{name}"));
    rec.class(&format!("ext_{}", E::EXTENSION_DEGREE));
    let max_log = if X::is_rescue() { if thorough { 13 } else { 11 } } else if thorough { 17 } else { 14 };
    let p = gen_params(s, max_log, rec);
    rec.class(&format!("folding_{}", p.folding));
    rec.class(&format!("remainder_degree_{}", p.rem_max_degree));
    let layers = p.num_layers();
    rec.class_if(layers >= 1, "layers_ge_1");
    let (coeffs, degree) = gen_poly::<X::S, E>(s, p.bound(), rec);
    if layers >= 1 || (degree == p.bound() && p.remainder_len() == p.bound() + 1) {
        rec.nontrivial();
    }
    rec.class_if(layers == 0 && degree == p.bound(), "zero_layers_remainder_eq_bound");
    let positions = gen_positions(s, p.domain(), rec);
    rec.set_fp(&(name, E::EXTENSION_DEGREE, p.log_bound, p.blowup, p.folding, p.rem_max_degree, degree, &positions, s.consumed()));
    rec.describe(|| json!({"instance": name, "extension_degree": E::EXTENSION_DEGREE, "bound": p.bound(), "blowup": p.blowup, "folding": p.folding, "remainder_max_degree": p.rem_max_degree, "layers": layers, "poly_degree": degree, "positions": positions}));
    let evals = evaluate::<X::S, E>(&coeffs, p.blowup);
    let ctx = format!("{name}, E degree {}, bound {}, blowup {}, folding {}, remainder max degree {}, {} layers, polynomial degree {degree}, positions {:?}", E::EXTENSION_DEGREE, p.bound(), p.blowup, p.folding, p.rem_max_degree, layers, &positions[..positions.len().min(8)]);
    let h = match prove::<X, E>(&p, &evals, &positions) {
        Ok(h) => h,
        Err(pn) => return Err(Fail::new(format!("prover-{}", pn.key()), format!("FRI prover panicked ({ctx}): {} at {}", pn.message, pn.location))),
    };
    ensure!(h.commitments.len() == layers + 1, "commitment-count", "prover sent {} commitments for {layers} layers + remainder ({ctx})", h.commitments.len());
    let q: Vec<E> = positions.iter().map(|i| evals[*i]).collect();
    for (what, proof) in [("direct", Ok(h.proof.clone())), ("after serialization round trip", reencode(&h.proof))] {
        let proof = match proof {
            Ok(p) => p,
            Err(e) => {
                // the remainder length is written as a u16: longer remainders are a recorded finding with its own key
                let rem_bytes = p.remainder_len() * E::ELEMENT_BYTES;
                let key = if rem_bytes > u16::MAX as usize { "fri-proof-roundtrip:remainder-longer-than-65535-bytes" } else { "fri-proof-roundtrip" };
                return Err(Fail::new(key, format!("FRI proof does not decode from its own encoding: {e} (remainder of {rem_bytes} bytes; {ctx})")));
            },
        };
        match verify_all::<X, E>(&p, p.bound(), proof, &h.commitments, &q, &positions, true) {
            Verdict::Accept => {},
            Verdict::Reject(e) => return Err(Fail::new(format!("honest-fri-proof-rejected:{e:?}").split('(').next().unwrap().to_string(), format!("honest FRI proof rejected ({what}): {e} ({ctx})"))),
            Verdict::ChannelError(e) => return Err(Fail::new("honest-fri-proof-unparsable", format!("DefaultVerifierChannel::new failed on an honest proof ({what}): {e} ({ctx})"))),
            Verdict::Panic(pn) => return Err(Fail::new(format!("verifier-{}", pn.key()), format!("FRI verifier panicked on an honest proof ({what}): {} at {} ({ctx})", pn.message, pn.location))),
        }
    }
    rec.weight = 2;
    Ok(())
}


// PROVER REUSE HISTORIES
// ================================================================================================

fn reuse(s: &mut Src, rec: &mut Rec) -> CaseResult {
    let idx = s.below(NUM_HASHERS);
    with_hasher!(idx, X, {
        let cube = <<X as HS>::S as Spec>::CUBE.is_some();
        match s.below(3) {
            0 => run_reuse::<X, <<X as HS>::S as Spec>::B>(s, rec),
            1 => run_reuse::<X, Q<<<X as HS>::S as Spec>::B>>(s, rec),
            _ if cube => run_reuse::<X, C<<<X as HS>::S as Spec>::B>>(s, rec),
            _ => run_reuse::<X, Q<<<X as HS>::S as Spec>::B>>(s, rec),
        }
    })
}

fn run_reuse<X: HS, E: FieldElement<BaseField = <X::S as Spec>::B>>(s: &mut Src, rec: &mut Rec) -> CaseResult {
    use winter_utils::Serializable;
    let name = X::NAME;
    rec.class(&format!("hasher:{name}"));
    let max_log = if X::is_rescue() { 9 } else { 11 };
    let first = gen_params(s, max_log, rec);
    let steps = s.range(2, 4) as usize;
    // all steps share the FRI options; the bound (hence the domain) varies
    let mut hist: Vec<Params> = vec![first.clone()];
    for _ in 1..steps {
        let mut q = first.clone();
        for _attempt in 0..8 {
            let lb = match s.below(4) {
                0 => first.log_bound,
                1 => first.log_bound + s.range(1, 3) as u32,
                2 => first.log_bound.saturating_sub(s.range(1, 3) as u32).max(3),
                _ => s.range(3, 11) as u32,
            };
            q.log_bound = lb.min(max_log - 1).max(3);
            if (q.domain() as u64) <= (1u64 << max_log) * 4 && !q.truncates() && q.remainder_len() * E::ELEMENT_BYTES <= u16::MAX as usize {
                break;
            }
            q.log_bound = first.log_bound;
        }
        hist.push(q);
    }
    if first.remainder_len() * E::ELEMENT_BYTES > u16::MAX as usize {
        return Ok(()); // recorded C08 finding (u16 remainder length) is the subject of the `honest` sub-check
    }
    for w in hist.windows(2) {
        rec.class(match w[1].domain().cmp(&w[0].domain()) {
            std::cmp::Ordering::Greater => "reuse:growing_domain",
            std::cmp::Ordering::Less => "reuse:shrinking_domain",
            std::cmp::Ordering::Equal => "reuse:same_domain",
        });
    }
    rec.nontrivial = hist.windows(2).any(|w| w[1].domain() != w[0].domain());
    let mut inputs = vec![];
    for q in &hist {
        let (coeffs, degree) = gen_poly::<X::S, E>(s, q.bound(), rec);
        let positions = gen_positions(s, q.domain(), rec);
        inputs.push((evaluate::<X::S, E>(&coeffs, q.blowup), positions, degree));
    }
    let domains: Vec<usize> = hist.iter().map(|q| q.domain()).collect();
    rec.set_fp(&(name, E::EXTENSION_DEGREE, first.blowup, first.folding, first.rem_max_degree, &domains, s.consumed()));
    rec.describe(|| json!({"instance": name, "extension_degree": E::EXTENSION_DEGREE, "blowup": first.blowup, "folding": first.folding, "remainder_max_degree": first.rem_max_degree, "domains_in_order": domains, "degrees": inputs.iter().map(|i| i.2).collect::<Vec<_>>()}));
    let ctx = format!("{name}, E degree {}, blowup {}, folding {}, remainder max degree {}, one FriProver used for domains {:?}", E::EXTENSION_DEGREE, first.blowup, first.folding, first.rem_max_degree, domains);
    // the history on ONE prover
    let produced = catch(|| {
        let mut prover = Prover::<X, E>::new(first.options());
        let mut out = vec![];
        for (q, (evals, positions, _)) in hist.iter().zip(inputs.iter()) {
            let mut channel = PChannel::<X, E>::new(q.domain(), 1);
            prover.build_layers(&mut channel, evals.clone());
            let proof = prover.build_proof(positions);
            out.push((proof, channel.layer_commitments().to_vec()));
        }
        out
    });
    let produced = match produced {
        Ok(v) => v,
        Err(pn) => return Err(Fail::new(format!("reused-prover-{}", pn.key()), format!("a reused FRI prover panicked ({ctx}): {} at {}", pn.message, pn.location))),
    };
    for (k, ((proof, commitments), (q, (evals, positions, _)))) in produced.into_iter().zip(hist.iter().zip(inputs.iter())).enumerate() {
        let fresh = match prove::<X, E>(q, evals, positions) {
            Ok(h) => h,
            Err(pn) => return Err(Fail::new(format!("prover-{}", pn.key()), format!("FRI prover panicked ({ctx}): {}", pn.message))),
        };
        let qv: Vec<E> = positions.iter().map(|i| evals[*i]).collect();
        match verify_all::<X, E>(q, q.bound(), proof.clone(), &commitments, &qv, positions, true) {
            Verdict::Accept => {},
            other => return Err(Fail::new("reused-prover-proof-rejected", format!("proof #{k} (domain {}) built by a reused prover is not accepted: {other:?} ({ctx})", q.domain()))),
        }
        ensure!(proof.to_bytes() == fresh.proof.to_bytes() && commitments == fresh.commitments, "reused-prover-proof-differs", "proof #{k} (domain {}) built by a reused prover differs from the proof a fresh prover builds for the same input ({ctx})", q.domain());
    }
    rec.weight = steps as u64;
    Ok(())
}
