//! C08 — FRI accepts every evaluation vector of a low-degree polynomial.

use vcore::*;
use vfield::*;
use vhash::*;
use winter_math::FieldElement;

use crate::common::*;

pub fn prop() -> Prop {
    Prop {
        id: "C08",
        level: "exploration",
        rule: "case = (hasher/field instance among 12; E in {base, quadratic, cubic where supported}; bound+1 = 2^3..2^12 with domain <= 2^14 (2^17 thorough); blowup 2..128; folding 2/4/8/16; remainder degree 2^r-1 <= 255; configurations with degree truncation are excluded by construction and counted; polynomial degree in {zero, 0, 1, bound/2, bound-1, bound, random}; position multiset of size 1..64 with duplicates / all equal / one coset / extremes). Oracle: FriVerifier::new + verify = Ok on the prover's proof and again on FriProof::read_from(to_bytes) through DefaultVerifierChannel. Non-trivial = at least one FRI layer, or zero layers with remainder degree = bound; distinct = hash of (instance, parameters, polynomial seed, positions).",
        assumptions: vec![
            "FRI configurations for which some folded layer would have degree+1 not divisible by the folding factor are outside the supported set (the verifier documents DegreeTruncation as a deliberate rejection, the prover cannot build such layers)",
            "evaluations are produced with fft::evaluate_poly_with_offset (C12's subject) over the offset domain the FRI options document (GENERATOR)",
        ],
        subs: vec![Sub::gen("honest", honest, 200, 30_000, 600_000)],
        required: vec!["layers_ge_1", "zero_layers_remainder_eq_bound", "ext_2", "ext_3", "folding_2", "folding_4", "folding_8", "folding_16", "poly_zero", "poly_degree_eq_bound", "poly_lower_degree", "positions_with_duplicates", "remainder_degree_0", "remainder_degree_255", "hasher:Rp62_248", "hasher:RpJive64_256", "hasher:Blake3_192<f128>"],
        required_thorough: vec![],
    }
}

fn honest(s: &mut Src, rec: &mut Rec) -> CaseResult {
    let idx = s.below(NUM_HASHERS);
    with_hasher!(idx, X, {
        let cube = <<X as HS>::S as Spec>::CUBE.is_some();
        match s.below(3) {
            0 => run::<X, <<X as HS>::S as Spec>::B>(s, rec),
            1 => run::<X, Q<<<X as HS>::S as Spec>::B>>(s, rec),
            _ if cube => run::<X, C<<<X as HS>::S as Spec>::B>>(s, rec),
            _ => run::<X, Q<<<X as HS>::S as Spec>::B>>(s, rec),
        }
    })
}

fn run<X: HS, E: FieldElement<BaseField = <X::S as Spec>::B>>(s: &mut Src, rec: &mut Rec) -> CaseResult {
    let thorough = std::env::var("VERIF_TIER").map(|t| t == "thorough").unwrap_or(false);
    let name = X::NAME;
    rec.class(&format!("hasher:{name}"));
    rec.class(&format!("ext_{}", E::EXTENSION_DEGREE));
    let max_log = if X::is_rescue() { if thorough { 13 } else { 11 } } else if thorough { 17 } else { 14 };
    let p = gen_params(s, max_log, rec);
    rec.class(&format!("folding_{}", p.folding));
    rec.class(&format!("remainder_degree_{}", p.rem_max_degree));
    let layers = p.num_layers();
    rec.class_if(layers >= 1, "layers_ge_1");
    let (coeffs, degree) = gen_poly::<X::S, E>(s, p.bound(), rec);
    if layers >= 1 || (degree == p.bound() && p.remainder_len() == p.bound() + 1) {
        rec.nontrivial();
    }
    rec.class_if(layers == 0 && degree == p.bound(), "zero_layers_remainder_eq_bound");
    let positions = gen_positions(s, p.domain(), rec);
    rec.set_fp(&(name, E::EXTENSION_DEGREE, p.log_bound, p.blowup, p.folding, p.rem_max_degree, degree, &positions, s.consumed()));
    rec.describe(|| json!({"instance": name, "extension_degree": E::EXTENSION_DEGREE, "bound": p.bound(), "blowup": p.blowup, "folding": p.folding, "remainder_max_degree": p.rem_max_degree, "layers": layers, "poly_degree": degree, "positions": positions}));
    let evals = evaluate::<X::S, E>(&coeffs, p.blowup);
    let ctx = format!("{name}, E degree {}, bound {}, blowup {}, folding {}, remainder max degree {}, {} layers, polynomial degree {degree}, positions {:?}", E::EXTENSION_DEGREE, p.bound(), p.blowup, p.folding, p.rem_max_degree, layers, &positions[..positions.len().min(8)]);
    let h = match prove::<X, E>(&p, &evals, &positions) {
        Ok(h) => h,
        Err(pn) => return Err(Fail::new(format!("prover-{}", pn.key()), format!("FRI prover panicked ({ctx}): {} at {}", pn.message, pn.location))),
    };
    ensure!(h.commitments.len() == layers + 1, "commitment-count", "prover sent {} commitments for {layers} layers + remainder ({ctx})", h.commitments.len());
    let q: Vec<E> = positions.iter().map(|i| evals[*i]).collect();
    for (what, proof) in [("direct", Ok(h.proof.clone())), ("after serialization round trip", reencode(&h.proof))] {
        let proof = match proof {
            Ok(p) => p,
            Err(e) => {
                // the remainder length is written as a u16: longer remainders are a recorded finding with its own key
                let rem_bytes = p.remainder_len() * E::ELEMENT_BYTES;
                let key = if rem_bytes > u16::MAX as usize { "fri-proof-roundtrip:remainder-longer-than-65535-bytes" } else { "fri-proof-roundtrip" };
                return Err(Fail::new(key, format!("FRI proof does not decode from its own encoding: {e} (remainder of {rem_bytes} bytes; {ctx})")));
            },
        };
        match verify::<X, E>(&p, proof, &h.commitments, &q, &positions) {
            Verdict::Accept => {},
            Verdict::Reject(e) => return Err(Fail::new(format!("honest-fri-proof-rejected:{e:?}").split('(').next().unwrap().to_string(), format!("honest FRI proof rejected ({what}): {e} ({ctx})"))),
            Verdict::ChannelError(e) => return Err(Fail::new("honest-fri-proof-unparsable", format!("DefaultVerifierChannel::new failed on an honest proof ({what}): {e} ({ctx})"))),
            Verdict::Panic(pn) => return Err(Fail::new(format!("verifier-{}", pn.key()), format!("FRI verifier panicked on an honest proof ({what}): {} at {} ({ctx})", pn.message, pn.location))),
        }
    }
    rec.weight = 2;
    Ok(())
}
