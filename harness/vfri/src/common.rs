//! Shared FRI set-up: parameter generation (restricted to configurations without degree
//! truncation), honest proving, verification through DefaultVerifierChannel, proof byte layout.

use vcore::*;
use vfield::*;
use vhash::*;
use winter_crypto::{DefaultRandomCoin, ElementHasher, Hasher, MerkleTree, RandomCoin};
use winter_fri::{DefaultProverChannel, DefaultVerifierChannel, FriOptions, FriProof, FriProver, FriVerifier, VerifierError};
use winter_math::{fft, FieldElement, StarkField};
use winter_utils::{Deserializable, Serializable};

#[derive(Clone, Debug)]
pub struct Params {
    pub log_bound: u32, // declared bound + 1 = 2^log_bound
    pub blowup: usize,
    pub folding: usize,
    pub rem_max_degree: usize,
}
impl Params {
    pub fn bound(&self) -> usize {
        (1usize << self.log_bound) - 1
    }
    pub fn domain(&self) -> usize {
        (1usize << self.log_bound) * self.blowup
    }
    pub fn options(&self) -> FriOptions {
        FriOptions::new(self.blowup, self.folding, self.rem_max_degree)
    }
    pub fn num_layers(&self) -> usize {
        self.options().num_fri_layers(self.domain())
    }
    /// the verifier documents DegreeTruncation as a deliberate rejection: such configurations are
    /// outside "supported" and are not generated
    pub fn truncates(&self) -> bool {
        let mut d = 1usize << self.log_bound;
        for _ in 0..self.num_layers() {
            if d % self.folding != 0 {
                return true;
            }
            d /= self.folding;
        }
        false
    }
    /// size of the remainder polynomial the honest prover sends
    pub fn remainder_len(&self) -> usize {
        let mut n = self.domain();
        for _ in 0..self.num_layers() {
            n /= self.folding;
        }
        n / self.blowup
    }
}

pub fn gen_params(s: &mut Src, max_log_domain: u32, rec: &mut Rec) -> Params {
    if max_log_domain >= 13 && s.chance(1, 40) {
        // remainder polynomials larger than any STARK configuration would use (FriOptions accepts them)
        rec.class("huge_remainder");
        let log_bound = s.range(10, 12) as u32;
        let r = s.range(log_bound as u64 - 1, log_bound as u64);
        return Params { log_bound, blowup: 2, folding: s.pick_copy(&[2usize, 4]), rem_max_degree: (1usize << r) - 1 };
    }
    loop {
        let log_bound = match s.below(6) {
            0 => 3,
            1 => 4,
            _ => s.range(3, (max_log_domain - 1).min(12) as u64) as u32,
        };
        let max_blowup_log = (max_log_domain - log_bound).min(7).max(1);
        let blowup = 1usize << s.range(1, max_blowup_log as u64);
        let folding = s.pick_copy(&[2usize, 4, 8, 16]);
        let r = if s.chance(1, 10) { s.range(0, log_bound as u64) } else { s.range(0, 8.min(log_bound as u64 + 2)) };
        let rem_max_degree = (1usize << r) - 1;
        let p = Params { log_bound, blowup, folding, rem_max_degree };
        if p.truncates() {
            rec.class("excluded_degree_truncation");
            if s.exhausted() {
                return Params { log_bound: 4, blowup: 2, folding: 2, rem_max_degree: 3 };
            }
            continue;
        }
        return p;
    }
}

/// coefficients (lowest first, padded to bound + 1) of a polynomial of the requested degree shape
pub fn gen_poly<S: Spec, E: FieldElement<BaseField = S::B>>(s: &mut Src, bound: usize, rec: &mut Rec) -> (Vec<E>, usize) {
    let shape = s.below(8);
    let degree: Option<usize> = match shape {
        0 => None, // zero polynomial
        1 => Some(0),
        2 => Some(1.min(bound)),
        3 => Some(bound / 2),
        4 => Some(bound.saturating_sub(1)),
        5 | 6 => Some(bound),
        _ => Some(s.below(bound as u64 + 1) as usize),
    };
    let mut mix = Mix(s.u64());
    let mut c = vec![E::ZERO; bound + 1];
    if let Some(d) = degree {
        for (i, x) in c.iter_mut().enumerate().take(d + 1) {
            *x = if i < 2 { gen_elem::<S, E>(s).0 } else { mix.elem::<S, E>().0 };
        }
        if c[d] == E::ZERO {
            c[d] = E::ONE;
        }
    }
    rec.class(match degree {
        None => "poly_zero",
        Some(0) => "poly_constant",
        Some(d) if d == bound => "poly_degree_eq_bound",
        _ => "poly_lower_degree",
    });
    (c, degree.unwrap_or(0))
}

pub fn evaluate<S: Spec, E: FieldElement<BaseField = S::B>>(coeffs: &[E], blowup: usize) -> Vec<E> {
    let tw = fft::get_twiddles::<S::B>(coeffs.len());
    fft::evaluate_poly_with_offset(coeffs, &tw, <S::B as StarkField>::GENERATOR, blowup)
}

pub fn gen_positions(s: &mut Src, domain: usize, rec: &mut Rec) -> Vec<usize> {
    let n = match s.below(5) {
        0 => 1,
        1 => s.range(1, 4),
        _ => s.range(1, 64),
    } as usize;
    let shape = s.below(6);
    let mut v: Vec<usize> = match shape {
        0 => {
            let p = s.below(domain as u64) as usize;
            rec.class("positions_all_equal");
            vec![p; n]
        },
        1 => {
            // all in one coset of the first folding: p + j * (domain / 2^k)
            let p = s.below(domain as u64 / 16 + 1) as usize;
            (0..n).map(|j| (p + (j % 16) * (domain / 16)) % domain).collect()
        },
        2 => {
            let mut v: Vec<usize> = (0..n).map(|_| s.below(domain as u64) as usize).collect();
            v[0] = 0;
            if n > 1 {
                v[1] = domain - 1;
            }
            v
        },
        _ => (0..n).map(|_| s.below(domain as u64) as usize).collect(),
    };
    if s.chance(1, 3) && v.len() > 1 {
        // duplicates
        let k = s.below(v.len() as u64) as usize;
        let j = s.below(v.len() as u64) as usize;
        v[k] = v[j];
        rec.class("positions_with_duplicates");
    }
    v
}

pub type Coin<X> = DefaultRandomCoin<<X as HS>::H>;
pub type PChannel<X, E> = DefaultProverChannel<E, <X as HS>::H, Coin<X>>;
pub type VChannel<X, E> = DefaultVerifierChannel<E, <X as HS>::H, MerkleTree<<X as HS>::H>>;
pub type Prover<X, E> = FriProver<E, PChannel<X, E>, <X as HS>::H, MerkleTree<<X as HS>::H>>;

pub struct Honest<X: HS> {
    pub proof: FriProof,
    pub commitments: Vec<<X::H as Hasher>::Digest>,
}

/// Runs the honest FRI prover on `evaluations` for the given parameters and query positions.
pub fn prove<X: HS, E: FieldElement<BaseField = <X::S as Spec>::B>>(p: &Params, evaluations: &[E], positions: &[usize]) -> Result<Honest<X>, PanicInfo> {
    catch(|| {
        let mut channel = PChannel::<X, E>::new(p.domain(), 1);
        let mut prover = Prover::<X, E>::new(p.options());
        prover.build_layers(&mut channel, evaluations.to_vec());
        let proof = prover.build_proof(positions);
        Honest { proof, commitments: channel.layer_commitments().to_vec() }
    })
}

#[derive(Debug)]
pub enum Verdict {
    Accept,
    ChannelError(String),
    Reject(VerifierError),
    Panic(PanicInfo),
}
impl Verdict {
    pub fn accepted(&self) -> bool {
        matches!(self, Verdict::Accept)
    }
}

/// Verifies `proof` (claimed degree bound `bound`) at `positions` with the given evaluations.
pub fn verify<X: HS, E: FieldElement<BaseField = <X::S as Spec>::B>>(
    p: &Params,
    proof: FriProof,
    commitments: &[<X::H as Hasher>::Digest],
    evaluations_at_positions: &[E],
    positions: &[usize],
) -> Verdict {
    let r = catch(|| {
        let mut coin = Coin::<X>::new(&[]);
        let mut channel = match VChannel::<X, E>::new(proof, commitments.to_vec(), p.domain(), p.folding) {
            Ok(c) => c,
            Err(e) => return Verdict::ChannelError(format!("{e}")),
        };
        let verifier = match FriVerifier::new(&mut channel, &mut coin, p.options(), p.bound()) {
            Ok(v) => v,
            Err(e) => return Verdict::Reject(e),
        };
        match verifier.verify(&mut channel, evaluations_at_positions, positions) {
            Ok(()) => Verdict::Accept,
            Err(e) => Verdict::Reject(e),
        }
    });
    match r {
        Ok(v) => v,
        Err(pn) => Verdict::Panic(pn),
    }
}

/// A channel written against the public `VerifierChannel` trait with only its REQUIRED methods (the
/// provided `read_layer_queries` / `read_remainder` are inherited): what a downstream verifier (such
/// as the STARK verifier's own channel) looks like. The FRI verifier has to reject bad proofs through
/// any such channel, not only through `DefaultVerifierChannel`.
pub struct ThinChannel<X: HS, E: FieldElement> {
    commitments: Vec<<X::H as Hasher>::Digest>,
    proofs: Vec<winter_crypto::BatchMerkleProof<X::H>>,
    queries: Vec<Vec<E>>,
    remainder: Vec<E>,
    partitions: usize,
}
impl<X: HS, E: FieldElement<BaseField = <X::S as Spec>::B>> ThinChannel<X, E> {
    pub fn new(proof: FriProof, commitments: Vec<<X::H as Hasher>::Digest>, domain: usize, folding: usize) -> Result<Self, String> {
        let partitions = proof.num_partitions();
        let remainder = proof.parse_remainder::<E>().map_err(|e| format!("{e}"))?;
        let (queries, proofs) = proof.parse_layers::<E, X::H, MerkleTree<X::H>>(domain, folding).map_err(|e| format!("{e}"))?;
        Ok(ThinChannel { commitments, proofs, queries, remainder, partitions })
    }
}
impl<X: HS, E: FieldElement<BaseField = <X::S as Spec>::B>> winter_fri::VerifierChannel<E> for ThinChannel<X, E> {
    type Hasher = X::H;
    type VectorCommitment = MerkleTree<X::H>;
    fn read_fri_num_partitions(&self) -> usize {
        self.partitions
    }
    fn read_fri_layer_commitments(&mut self) -> Vec<<X::H as Hasher>::Digest> {
        self.commitments.drain(..).collect()
    }
    fn take_next_fri_layer_proof(&mut self) -> winter_crypto::BatchMerkleProof<X::H> {
        self.proofs.remove(0)
    }
    fn take_next_fri_layer_queries(&mut self) -> Vec<E> {
        self.queries.remove(0)
    }
    fn take_fri_remainder(&mut self) -> Vec<E> {
        self.remainder.clone()
    }
}

/// `verify_with_bound` through the thin channel
pub fn verify_thin<X: HS, E: FieldElement<BaseField = <X::S as Spec>::B>>(
    p: &Params,
    declared_bound: usize,
    proof: FriProof,
    commitments: &[<X::H as Hasher>::Digest],
    evaluations_at_positions: &[E],
    positions: &[usize],
) -> Verdict {
    let r = catch(|| {
        let mut coin = Coin::<X>::new(&[]);
        let mut channel = match ThinChannel::<X, E>::new(proof, commitments.to_vec(), p.domain(), p.folding) {
            Ok(c) => c,
            Err(e) => return Verdict::ChannelError(e),
        };
        let verifier = match FriVerifier::new(&mut channel, &mut coin, p.options(), declared_bound) {
            Ok(v) => v,
            Err(e) => return Verdict::Reject(e),
        };
        match verifier.verify(&mut channel, evaluations_at_positions, positions) {
            Ok(()) => Verdict::Accept,
            Err(e) => Verdict::Reject(e),
        }
    });
    match r {
        Ok(v) => v,
        Err(pn) => Verdict::Panic(pn),
    }
}

/// Verifies through BOTH channels (DefaultVerifierChannel and the thin one) and merges the verdicts
/// against the caller's expectation: when acceptance is expected the first non-accepting verdict is
/// returned, when rejection is expected an acceptance (or a panic) through either channel wins.
pub fn verify_all<X: HS, E: FieldElement<BaseField = <X::S as Spec>::B>>(
    p: &Params,
    declared_bound: usize,
    proof: FriProof,
    commitments: &[<X::H as Hasher>::Digest],
    evaluations_at_positions: &[E],
    positions: &[usize],
    expect_accept: bool,
) -> Verdict {
    let a = verify_with_bound::<X, E>(p, declared_bound, proof.clone(), commitments, evaluations_at_positions, positions);
    let b = verify_thin::<X, E>(p, declared_bound, proof, commitments, evaluations_at_positions, positions);
    if expect_accept {
        if a.accepted() {
            b
        } else {
            a
        }
    } else if a.accepted() || matches!(a, Verdict::Panic(_)) {
        a
    } else if b.accepted() || matches!(b, Verdict::Panic(_)) {
        b
    } else {
        a
    }
}

/// Like `verify`, but the verifier is told `declared_bound` instead of the bound the proof was built
/// for (same domain as long as next_power_of_two(declared_bound) = bound + 1).
pub fn verify_with_bound<X: HS, E: FieldElement<BaseField = <X::S as Spec>::B>>(
    p: &Params,
    declared_bound: usize,
    proof: FriProof,
    commitments: &[<X::H as Hasher>::Digest],
    evaluations_at_positions: &[E],
    positions: &[usize],
) -> Verdict {
    let r = catch(|| {
        let mut coin = Coin::<X>::new(&[]);
        let mut channel = match VChannel::<X, E>::new(proof, commitments.to_vec(), p.domain(), p.folding) {
            Ok(c) => c,
            Err(e) => return Verdict::ChannelError(format!("{e}")),
        };
        let verifier = match FriVerifier::new(&mut channel, &mut coin, p.options(), declared_bound) {
            Ok(v) => v,
            Err(e) => return Verdict::Reject(e),
        };
        match verifier.verify(&mut channel, evaluations_at_positions, positions) {
            Ok(()) => Verdict::Accept,
            Err(e) => Verdict::Reject(e),
        }
    });
    match r {
        Ok(v) => v,
        Err(pn) => Verdict::Panic(pn),
    }
}

pub fn reencode(proof: &FriProof) -> Result<FriProof, String> {
    let bytes = proof.to_bytes();
    let mut r = winter_utils::SliceReader::new(&bytes);
    let p = FriProof::read_from(&mut r).map_err(|e| format!("{e}"))?;
    if winter_utils::ByteReader::has_more_bytes(&r) {
        return Err("bytes left over after decoding the FRI proof".into());
    }
    Ok(p)
}

/// the FRI challenges, replayed from the public coin exactly as FriVerifier::new does
pub fn replay_alphas<X: HS, E: FieldElement<BaseField = <X::S as Spec>::B>>(commitments: &[<X::H as Hasher>::Digest]) -> Vec<E> {
    let mut coin = Coin::<X>::new(&[]);
    commitments
        .iter()
        .map(|c| {
            coin.reseed(*c);
            coin.draw::<E>().expect("alpha")
        })
        .collect()
}

// PROOF BYTE LAYOUT
// ================================================================================================

/// byte ranges inside FriProof::to_bytes(): per layer (values, paths) and the remainder
pub struct Layout {
    pub layers: Vec<(std::ops::Range<usize>, std::ops::Range<usize>)>,
    pub remainder: std::ops::Range<usize>,
}
pub fn layout(bytes: &[u8]) -> Option<Layout> {
    let mut pos = 0usize;
    let n = *bytes.first()? as usize;
    pos += 1;
    let mut layers = vec![];
    for _ in 0..n {
        let lv = u32::from_le_bytes(bytes.get(pos..pos + 4)?.try_into().ok()?) as usize;
        pos += 4;
        let v = pos..pos + lv;
        pos += lv;
        let lp = u32::from_le_bytes(bytes.get(pos..pos + 4)?.try_into().ok()?) as usize;
        pos += 4;
        let pth = pos..pos + lp;
        pos += lp;
        layers.push((v, pth));
    }
    let lr = u16::from_le_bytes(bytes.get(pos..pos + 2)?.try_into().ok()?) as usize;
    pos += 2;
    let remainder = pos..pos + lr;
    pos += lr;
    if pos + 1 != bytes.len() {
        return None;
    }
    Some(Layout { layers, remainder })
}

pub fn elems_to_bytes<E: FieldElement>(v: &[E]) -> Vec<u8> {
    let mut out = vec![];
    for e in v {
        e.write_into(&mut out);
    }
    out
}
pub fn bytes_to_elems<E: FieldElement>(b: &[u8]) -> Vec<E> {
    b.chunks(E::ELEMENT_BYTES).map(|c| E::read_from_bytes(c).expect("element bytes")).collect()
}

pub fn hasher_for_field(s: &mut Src) -> u64 {
    s.below(NUM_HASHERS)
}

pub fn hash_elems<X: HS, E: FieldElement<BaseField = <X::S as Spec>::B>>(v: &[E]) -> <X::H as Hasher>::Digest {
    <X::H as ElementHasher>::hash_elements(v)
}
