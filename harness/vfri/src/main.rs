fn main() {
    vcore::main_with(vfri::props());
}
