//! C08 (FRI completeness) and C09 (FRI rejection).

use vcore::*;

mod common;
mod c08;
mod c09;

fn main() {
    vref::field::startup_selfcheck();
    main_with(vec![c08::prop(), c09::prop()]);
}
