//! libFuzzer bridge (DESIGN.md section 11): the fuzzer's bytes are decoded into the choice vector
//! of one generated sub-check, which runs in-process with its oracle. A failure that is not a
//! recorded known finding aborts, so libFuzzer keeps the input; `tools/fuzz_stage.py` converts it
//! into a replay file and the release-profile check binary decides.
#![no_main]

use std::sync::OnceLock;

use libfuzzer_sys::fuzz_target;
use vcore::FuzzTarget;

static TARGET: OnceLock<FuzzTarget> = OnceLock::new();

fn target() -> &'static FuzzTarget {
    TARGET.get_or_init(|| {
        let name = std::env::var("VERIF_FUZZ_TARGET").expect("set VERIF_FUZZ_TARGET=<Cxx>/<sub-check>");
        let mut props = Vec::new();
        props.extend(vserde::props());
        props.extend(vmath::props());
        props.extend(vcrypto::props());
        props.extend(vfri::props());
        props.extend(vair::props());
        props.extend(vstark::props());
        FuzzTarget::find(props, &name)
    })
}

fuzz_target!(|data: &[u8]| {
    let t = target();
    if let Some(fail) = t.run(data) {
        eprintln!("FUZZ-FAIL property={} sub={} key={} :: {}", t.prop, t.sub, fail.key, fail.msg);
        std::process::abort();
    }
});
