//! C21 — assertion step sets and overlap detection are exact (exhaustive small scope).

use std::collections::BTreeSet;

use vcore::*;
use winter_air::{AirContext, Assertion, BatchingMethod, BoundaryConstraints, FieldExtension, ProofOptions, TraceInfo, TransitionConstraintDegree};
use winter_math::fields::f64::BaseElement as B;
use winter_math::FieldElement;

pub fn prop() -> Prop {
    Prop {
        id: "C21",
        level: "exploration",
        rule: "exhaustive: for every power-of-two trace length n in 8..=128 (thorough ..=512): all single (step < n), periodic (stride 2..n, first < stride) and sequence (stride * len = n, len >= 1, first < stride) assertions; for each: apply() visits exactly the reference progression first + stride*i in order with the right values, get_num_steps equals its size, validate_trace_length(m) for every power of two m <= 4n is Ok exactly when the assertion fits; all ordered pairs (same and different columns): overlaps_with <=> same column and the step sets intersect (symmetry checked); BoundaryConstraints::new panics <=> some pair overlaps (all pairs for n <= 32); every invalid constructor argument (stride not a power of two, < 2, first >= stride, empty / non power-of-two value lists) is rejected. Non-trivial = pair on the same column with different first steps; distinct = (n, pair).",
        assumptions: vec![
            "an assertion 'fits' a trace length m when: single: step < m; periodic: stride <= m; sequence: number of values * stride == m (the rustdoc of validate_trace_length)",
            "f64 is used as the value field; the logic under test does not depend on the field",
        ],
        subs: vec![Sub::exhaustive("assertions", assertions)],
        required: vec!["pair_overlapping", "pair_disjoint_same_column", "constructor_rejected", "boundary_constraints_panic_on_overlap"],
        required_thorough: vec![],
    }
}

#[derive(Clone)]
struct A {
    a: Assertion<B>,
    steps: BTreeSet<usize>,
    order: Vec<usize>,
    kind: u8,
    stride: usize,
    desc: String,
}

fn val(col: usize, step: usize) -> B {
    B::new((col as u64) * 1_000_003 + step as u64 * 7 + 1)
}

fn all_assertions(n: usize, col: usize) -> Vec<A> {
    let mut out = vec![];
    for step in 0..n {
        out.push(A { a: Assertion::single(col, step, val(col, step)), steps: [step].into(), order: vec![step], kind: 0, stride: 0, desc: format!("single(col {col}, step {step})") });
    }
    let mut stride = 2;
    while stride <= n {
        for first in 0..stride {
            let order: Vec<usize> = (0..n / stride).map(|i| first + stride * i).collect();
            out.push(A { a: Assertion::periodic(col, first, stride, val(col, first)), steps: order.iter().copied().collect(), order, kind: 1, stride, desc: format!("periodic(col {col}, first {first}, stride {stride})") });
            let len = n / stride;
            // a sequence with a single value is documented to behave like a single assertion
            let order: Vec<usize> = (0..len).map(|i| first + stride * i).collect();
            let values: Vec<B> = order.iter().map(|s| val(col, *s)).collect();
            out.push(A { a: Assertion::sequence(col, first, stride, values), steps: order.iter().copied().collect(), order, kind: 2, stride, desc: format!("sequence(col {col}, first {first}, stride {stride}, {len} values)") });
        }
        stride *= 2;
    }
    out
}

fn context(n: usize, num_assertions: usize) -> AirContext<B> {
    let options = ProofOptions::new(1, 2, 0, FieldExtension::None, 2, 0, BatchingMethod::Linear, BatchingMethod::Linear);
    AirContext::new(TraceInfo::new(2, n), vec![TransitionConstraintDegree::new(1)], num_assertions, options)
}

fn assertions(ex: &mut Ex) {
    let max_n = if ex.tier == Tier::Thorough { 512 } else { 128 };
    let mut n = 8;
    let mut sampled = 0;
    while n <= max_n {
        let list = all_assertions(n, 0);
        let other = all_assertions(n, 1);
        ex.space(json!({"trace_length": n, "assertions": list.len(), "ordered_pairs": 2 * list.len() * list.len()}));
        // per-assertion checks
        for x in &list {
            ex.case(fnv_of(&(n, &x.desc)), false);
            let mut visited = vec![];
            let mut values_ok = true;
            x.a.apply(n, |step, v| {
                // periodic assertions carry one value for all their steps
                let want = if x.kind == 1 { val(0, x.order[0]) } else { val(0, step) };
                if v != want {
                    values_ok = false;
                }
                visited.push(step);
            });
            if visited != x.order || !values_ok {
                ex.fail("apply-steps", format!("n = {n}: {}.apply visited {:?}, documented progression is {:?} (values ok: {values_ok})", x.desc, &visited[..visited.len().min(8)], &x.order[..x.order.len().min(8)]), json!({"n": n, "assertion": x.desc}));
            }
            if x.a.get_num_steps(n) != x.steps.len() {
                ex.fail("get_num_steps", format!("n = {n}: {}.get_num_steps = {}, progression has {} steps", x.desc, x.a.get_num_steps(n), x.steps.len()), json!({"n": n, "assertion": x.desc}));
            }
            // trace length validation for every power of two up to 4n (and a non power of two)
            let mut m = 1;
            while m <= 4 * n {
                let single_like = x.kind == 0 || (x.kind == 2 && x.order.len() == 1);
                let fits = if single_like {
                    x.order[0] < m
                } else if x.kind == 1 {
                    x.stride <= m
                } else {
                    x.stride * x.order.len() == m
                };
                let got = x.a.validate_trace_length(m).is_ok();
                if got != fits {
                    ex.fail("validate_trace_length", format!("{} (built for n = {n}): validate_trace_length({m}) is {} but the assertion {} that length", x.desc, if got { "Ok" } else { "Err" }, if fits { "fits" } else { "does not fit" }), json!({"n": n, "m": m, "assertion": x.desc}));
                }
                m *= 2;
            }
            if x.a.validate_trace_length(n + 1).is_ok() || x.a.validate_trace_length(3 * n / 4 + 1).is_ok() && !(3 * n / 4 + 1).is_power_of_two() {
                ex.fail("validate_trace_length-non-power-of-two", format!("{}: a trace length that is not a power of two was accepted", x.desc), json!({"n": n, "assertion": x.desc}));
            }
            if x.a.validate_trace_width(1).is_err() || x.a.validate_trace_width(0).is_ok() {
                ex.fail("validate_trace_width", format!("{}: validate_trace_width wrong", x.desc), json!({"n": n}));
            }
        }
        // pairs
        for x in &list {
            for (same_col, ys) in [(true, &list), (false, &other)] {
                for y in ys.iter() {
                    let intersect = same_col && x.steps.iter().any(|s| y.steps.contains(s));
                    let nontrivial = same_col && x.order[0] != y.order[0];
                    ex.case(fnv_of(&(n, &x.desc, &y.desc)), nontrivial);
                    let got = x.a.overlaps_with(&y.a);
                    let back = y.a.overlaps_with(&x.a);
                    if intersect {
                        ex.class("pair_overlapping", 1);
                    } else if same_col {
                        ex.class("pair_disjoint_same_column", 1);
                    }
                    if got != intersect || back != intersect {
                        ex.fail(
                            if intersect { "overlap-missed" } else { "overlap-spurious" },
                            format!("n = {n}: {} vs {}: overlaps_with = {got} (reverse {back}) but the constrained cells {} intersect", x.desc, y.desc, if intersect { "do" } else { "do not" }),
                            json!({"n": n, "a": x.desc, "b": y.desc}),
                        );
                    }
                    if nontrivial && sampled < 4 && intersect {
                        sampled += 1;
                        ex.sample(json!({"n": n, "a": x.desc, "b": y.desc, "overlap": intersect}));
                    }
                    // the public entry point that must reject overlapping assertion sets
                    if n <= 32 {
                        let ctx = context(n, 2);
                        let r = catch(|| BoundaryConstraints::<B>::new(&ctx, vec![x.a.clone(), y.a.clone()], vec![], &[B::ONE, B::new(2)]));
                        if intersect {
                            ex.class("boundary_constraints_panic_on_overlap", 1);
                        }
                        if r.is_err() != intersect {
                            ex.fail(
                                "boundary-constraints-overlap",
                                format!("n = {n}: BoundaryConstraints::new([{}, {}]) {} although the assertions {}", x.desc, y.desc, if r.is_err() { "panicked" } else { "succeeded" }, if intersect { "overlap" } else { "do not overlap" }),
                                json!({"n": n, "a": x.desc, "b": y.desc}),
                            );
                        }
                    }
                }
            }
        }
        n *= 2;
    }
    // constructors must reject every invalid stride / first step / value list
    for stride in 0..=70usize {
        for first in 0..=70usize {
            let valid = stride >= 2 && stride.is_power_of_two() && first < stride;
            ex.case(fnv_of(&("ctor", stride, first)), false);
            let p = catch(|| Assertion::periodic(0, first, stride, B::ONE)).is_ok();
            let q = catch(|| Assertion::sequence(0, first, stride, vec![B::ONE, B::ZERO])).is_ok();
            if !valid {
                ex.class("constructor_rejected", 1);
            }
            if p != valid || q != valid {
                ex.fail("constructor-validation", format!("periodic/sequence constructors with stride {stride}, first step {first}: accepted = {p}/{q}, documented validity = {valid}"), json!({"stride": stride, "first": first}));
            }
        }
    }
    for len in 0..=20usize {
        let valid = len >= 1 && len.is_power_of_two();
        ex.case(fnv_of(&("ctor-len", len)), false);
        let q = catch(|| Assertion::sequence(0, 0, 4, vec![B::ONE; len])).is_ok();
        if q != valid {
            ex.fail("constructor-validation-values", format!("sequence with {len} values accepted = {q}, documented validity = {valid}"), json!({"len": len}));
        }
    }
}
