//! C21, C23, C24, C25 (and the constraint-level part of C22, shared with vstark through vgen).

use vcore::*;

pub mod c21;
pub mod c23;
pub mod c24;
pub mod c25;

pub fn props() -> Vec<Prop> {
    vref::field::startup_selfcheck();
    let c22 = Prop {
        id: "C22",
        level: "exploration",
        rule: vgen::c22::C22_RULE,
        assumptions: vgen::c22::c22_assumptions(),
        subs: vgen::c22::c22_subs(),
        required: vgen::c22::C22_REQUIRED.to_vec(),
        required_thorough: vec![],
    };
    vec![c21::prop(), c22, c23::prop(), c24::prop(), c25::prop()]
}
