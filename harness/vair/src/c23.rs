//! C23 — transition divisors, degree bounds and periodic columns are consistent.

use std::sync::Arc;

use vcore::*;
use vfield::{gen_elem, gen_int, Mix, Spec as FSpec, F128, F62, F64, Q};
use vgen::spec::*;
use vgen::{GenAir, PubInputs};
use winter_air::{Air, AirContext, BatchingMethod, ConstraintDivisor, FieldExtension, ProofOptions, TraceInfo, TransitionConstraintDegree};
use winter_math::{polynom, FieldElement, StarkField};

pub fn prop() -> Prop {
    Prop {
        id: "C23",
        level: "exploration",
        rule: "case = (field; trace length n = 8..4096; exemptions k; degree declarations base 1..8 with 0..3 cycles of length 2..n; blowup; periodic columns with generated values and cycle 2..n). Oracle: z(x) * prod_{i<=k}(x - g^(n-i)) = x^n - 1 at generated off-domain points (base and extension), z vanishes on every non-exempt domain point, degree() = n - k, exemptions() = the last k domain points; get_evaluation_degree / min_blowup_factor equal the documented formulas; num_constraint_composition_columns * n > composition degree and ce_domain_size > composition degree; set_num_transition_exemptions accepts exactly the documented range; periodic polynomial evaluated at (g^s)^(n/c) = values[s mod c] for every step s. Non-trivial = k > 1 or cycles present; distinct = hash of the parameters.",
        assumptions: vec![
            "the composition polynomial of a constraint of evaluation degree D divided by the transition divisor of degree n - k has degree D - (n - k) and needs D - (n - k) + 1 coefficients",
            "documented formulas: evaluation degree = base*(n-1) + sum (n/c)*(c-1); min blowup = max(2, next_power_of_two(base + #cycles - 1)); exemptions in 1..=min(n/2+1, ce_domain_size - 1 + n - max evaluation degree)",
        ],
        subs: vec![Sub::gen("divisor", divisor, 64, 20_000, 1_000_000), Sub::gen("context", context, 64, 40_000, 2_000_000), Sub::gen("periodic", periodic, 64, 4_000, 200_000)],
        required: vec!["k_eq_base_degree", "k_eq_bound", "k_gt_1", "with_cycles", "composition_degree_multiple_of_n", "exemptions_rejected_above_bound"],
        required_thorough: vec![],
    }
}

fn divisor(s: &mut Src, rec: &mut Rec) -> CaseResult {
    match s.below(3) {
        0 => divisor_f::<F62>(s, rec),
        1 => divisor_f::<F64>(s, rec),
        _ => divisor_f::<F128>(s, rec),
    }
}

fn divisor_f<S: FSpec>(s: &mut Src, rec: &mut Rec) -> CaseResult {
    let log_n = s.range(3, 12) as u32;
    let n = 1usize << log_n;
    let k = match s.below(4) {
        0 => 1,
        1 => s.range(1, 4) as usize,
        2 => n / 2 + 1,
        _ => s.range(1, (n / 2 + 1) as u64) as usize,
    };
    rec.class_if(k > 1, "k_gt_1");
    if k > 1 {
        rec.nontrivial();
    }
    rec.set_fp(&(S::NAME, n, k, s.consumed()));
    rec.describe(|| json!({"field": S::NAME, "n": n, "exemptions": k}));
    let d = match catch(|| ConstraintDivisor::<S::B>::from_transition(n, k)) {
        Ok(d) => d,
        Err(pn) => return Err(Fail::new(pn.key(), format!("from_transition({n}, {k}) panicked: {}", pn.message))),
    };
    ensure!(d.degree() == n - k, "divisor-degree", "{}: from_transition({n}, {k}).degree() = {}, expected {}", S::NAME, d.degree(), n - k);
    let g = <S::B as StarkField>::get_root_of_unity(log_n);
    let exempt: Vec<S::B> = (n - k..n).map(|i| g.exp(S::pint(i as u128))).collect();
    let mut got: Vec<u128> = d.exemptions().iter().map(|e| S::to_int(e)).collect();
    let mut want: Vec<u128> = exempt.iter().map(|e| S::to_int(e)).collect();
    got.sort();
    want.sort();
    ensure!(got == want, "divisor-exemptions", "{}: from_transition({n}, {k}).exemptions() are not the last {k} points of the trace domain", S::NAME);
    // vanishes exactly on the non-exempt domain points (a sample of them for large n, always both ends)
    let mut steps: Vec<usize> = if n <= 256 { (0..n).collect() } else { vec![0, 1, n - k - 1, n - k, n - 1] };
    if n > 256 {
        for _ in 0..40 {
            steps.push(s.below(n as u64) as usize);
        }
    }
    for st in steps {
        let x = g.exp(S::pint(st as u128));
        if st < n - k {
            ensure!(d.evaluate_at(x) == S::B::ZERO, "divisor-does-not-vanish", "{}: transition divisor (n = {n}, k = {k}) does not vanish at non-exempt step {st}", S::NAME);
        } else {
            // at an exempt point only the numerator vanishes; the product z(x) * prod(x - e) = x^n - 1 = 0 holds trivially
            ensure!(d.evaluate_exemptions_at(x) == S::B::ZERO, "divisor-exemption-factor", "{}: exemption factor does not vanish at exempt step {st}", S::NAME);
        }
    }
    // identity at off-domain points, in the base field and in an extension
    for _ in 0..4 {
        let (x, _) = gen_elem::<S, S::B>(s);
        let lhs = d.evaluate_at(x) * exempt.iter().fold(S::B::ONE, |acc, e| acc * (x - *e));
        let rhs = x.exp(S::pint(n as u128)) - S::B::ONE;
        if d.evaluate_exemptions_at(x) != S::B::ZERO {
            ensure!(lhs == rhs, "divisor-identity", "{}: z(x) * prod(x - exempt) != x^n - 1 at x = {} (n = {n}, k = {k})", S::NAME, S::to_int(&x));
        }
        let (y, _) = gen_elem::<S, Q<S::B>>(s);
        let lhs = d.evaluate_at(y) * exempt.iter().fold(Q::<S::B>::ONE, |acc, e| acc * (y - Q::<S::B>::from(*e)));
        let rhs = y.exp(S::pint(n as u128)) - Q::<S::B>::ONE;
        if d.evaluate_exemptions_at(y) != Q::<S::B>::ZERO {
            ensure!(lhs == rhs, "divisor-identity-ext", "{}: z(x) * prod(x - exempt) != x^n - 1 at an extension point (n = {n}, k = {k})", S::NAME);
        }
    }
    Ok(())
}

fn context(s: &mut Src, rec: &mut Rec) -> CaseResult {
    type B = winter_math::fields::f64::BaseElement;
    let log_n = s.range(3, 12) as u32;
    let n = 1usize << log_n;
    let ndeg = s.range(1, 4) as usize;
    let mut degrees = vec![];
    let mut descr = vec![];
    let mut max_eval = 0usize;
    let mut min_blowup = 2usize;
    let mut max_base = 1;
    for _ in 0..ndeg {
        let base = s.range(1, 8) as usize;
        let nc = if s.chance(1, 2) { s.range(1, 3) as usize } else { 0 };
        let cycles: Vec<usize> = (0..nc).map(|_| 1usize << s.range(1, log_n as u64)).collect();
        rec.class_if(nc > 0, "with_cycles");
        // documented formulas, re-stated
        let eval = base * (n - 1) + cycles.iter().map(|c| (n / c) * (c - 1)).sum::<usize>();
        let mb = (base + nc - 1).max(1).next_power_of_two().max(2);
        let d = if nc == 0 { TransitionConstraintDegree::new(base) } else { TransitionConstraintDegree::with_cycles(base, cycles.clone()) };
        ensure!(d.get_evaluation_degree(n) == eval, "evaluation-degree", "degree (base {base}, cycles {cycles:?}).get_evaluation_degree({n}) = {}, documented formula gives {eval}", d.get_evaluation_degree(n));
        ensure!(d.min_blowup_factor() == mb, "min-blowup", "degree (base {base}, cycles {cycles:?}).min_blowup_factor() = {}, documented formula gives {mb}", d.min_blowup_factor());
        max_eval = max_eval.max(eval);
        min_blowup = min_blowup.max(mb);
        max_base = max_base.max(base);
        descr.push((base, cycles));
        degrees.push(d);
    }
    if min_blowup > 128 {
        return Ok(());
    }
    let blowup = (min_blowup << s.below(3)).min(128);
    let options = ProofOptions::new(1, blowup, 0, FieldExtension::None, 2, 0, BatchingMethod::Linear, BatchingMethod::Linear);
    let ctx = match catch(|| AirContext::<B>::new(TraceInfo::new(3, n), degrees.clone(), 1, options.clone())) {
        Ok(c) => c,
        Err(pn) => return Err(Fail::new(pn.key(), format!("AirContext::new rejected blowup {blowup} >= documented minimum {min_blowup}: {}", pn.message))),
    };
    // a blowup below the documented minimum must be rejected
    if min_blowup > 2 {
        let small = ProofOptions::new(1, min_blowup / 2, 0, FieldExtension::None, 2, 0, BatchingMethod::Linear, BatchingMethod::Linear);
        ensure!(catch(|| AirContext::<B>::new(TraceInfo::new(3, n), degrees.clone(), 1, small)).is_err(), "blowup-below-minimum-accepted", "AirContext::new accepted blowup {} below the documented minimum {min_blowup}", min_blowup / 2);
    }
    ensure!(ctx.ce_domain_size() == n * min_blowup, "ce-domain-size", "ce_domain_size = {}, expected n * min blowup = {}", ctx.ce_domain_size(), n * min_blowup);
    let bound = (n / 2 + 1).min(ctx.ce_domain_size() - 1 + n - max_eval);
    let k = match s.below(5) {
        0 => 1,
        1 => max_base.min(bound),
        2 => bound,
        _ => s.range(1, bound as u64) as usize,
    }
    .max(1);
    rec.class_if(k > 1, "k_gt_1");
    rec.class_if(k == max_base && k > 1, "k_eq_base_degree");
    rec.class_if(k == bound && k > 1, "k_eq_bound");
    if k > 1 || descr.iter().any(|d| !d.1.is_empty()) {
        rec.nontrivial();
    }
    rec.set_fp(&(n, &descr, blowup, k));
    rec.describe(|| json!({"n": n, "degrees": descr, "blowup": blowup, "exemptions": k, "documented_bound": bound}));
    // accepted exactly in the documented range
    for cand in [0usize, 1, k, bound, bound + 1, n / 2 + 2, n] {
        let ok = catch(|| ctx.clone().set_num_transition_exemptions(cand)).is_ok();
        let want = cand >= 1 && cand <= bound;
        rec.class_if(!want && cand > bound, "exemptions_rejected_above_bound");
        ensure!(ok == want, if ok { "exemptions-accepted-outside-range" } else { "exemptions-rejected-inside-range" }, "n = {n}, degrees {descr:?}, blowup {blowup}: set_num_transition_exemptions({cand}) {} but the documented range is 1..={bound}", if ok { "accepted" } else { "rejected" });
    }
    let ctx = ctx.set_num_transition_exemptions(k);
    ensure!(ctx.num_transition_exemptions() == k, "exemptions-not-stored", "num_transition_exemptions() = {}", ctx.num_transition_exemptions());
    // enough composition columns / a large enough evaluation domain for the composition polynomial
    let comp_degree = max_eval - (n - k);
    rec.class_if(comp_degree % n == 0, "composition_degree_multiple_of_n");
    let cols = ctx.num_constraint_composition_columns();
    ensure!(cols * n > comp_degree, "too-few-composition-columns", "n = {n}, degrees {descr:?}, {k} exemptions: composition polynomial has degree {comp_degree} ({} coefficients) but num_constraint_composition_columns() = {cols} columns hold only {}", comp_degree + 1, cols * n);
    ensure!(ctx.ce_domain_size() > comp_degree, "ce-domain-too-small", "ce_domain_size {} <= composition degree {comp_degree}", ctx.ce_domain_size());
    Ok(())
}

fn periodic(s: &mut Src, rec: &mut Rec) -> CaseResult {
    match s.below(3) {
        0 => periodic_f::<F62>(s, rec),
        1 => periodic_f::<F64>(s, rec),
        _ => periodic_f::<F128>(s, rec),
    }
}

fn periodic_f<S: FSpec>(s: &mut Src, rec: &mut Rec) -> CaseResult {
    let log_n = s.range(3, 10) as u32;
    let n = 1usize << log_n;
    let ncols = s.range(1, 3) as usize;
    let cols: Vec<Vec<u128>> = (0..ncols)
        .map(|_| {
            let c = 1usize << s.range(1, log_n as u64);
            let mut mix = Mix(s.u64());
            (0..c).map(|i| if i < 3 { gen_int::<S>(s) } else { mix.int::<S>() }).collect()
        })
        .collect();
    rec.nontrivial();
    rec.class("with_cycles");
    rec.set_fp(&(S::NAME, n, &cols));
    rec.describe(|| json!({"field": S::NAME, "n": n, "cycles": cols.iter().map(|c| c.len()).collect::<Vec<_>>()}));
    let spec = Spec {
        field: S::NAME,
        main_width: 1,
        aux: vec![],
        num_rands: 0,
        trace_len: n,
        exemptions: 1,
        periodic: cols.clone(),
        constraints: vec![MainConstraint { f: vec![Term { coef: 1, vars: vec![(0, 1)] }], g: vec![Term { coef: 1, vars: vec![] }], periodic: Some(0) }],
        assertions: vec![AssertSpec { column: 0, first: 0, stride: 0, values: vec![0], kind: 0 }],
        aux_assertions: vec![],
        tag: 0,
        meta: vec![],
        keep_tail: vec![true],
    };
    let options = ProofOptions::new(1, 2, 0, FieldExtension::None, 2, 0, BatchingMethod::Linear, BatchingMethod::Linear);
    let air = GenAir::<S>::new(TraceInfo::new(1, n), PubInputs::new(Arc::new(spec)), options);
    let polys = match catch(|| air.get_periodic_column_polys()) {
        Ok(p) => p,
        Err(pn) => return Err(Fail::new(pn.key(), format!("get_periodic_column_polys panicked: {}", pn.message))),
    };
    ensure!(polys.len() == cols.len(), "periodic-count", "{} polynomials for {} periodic columns", polys.len(), cols.len());
    let g = <S::B as StarkField>::get_root_of_unity(log_n);
    for (p, vals) in polys.iter().zip(&cols) {
        let c = vals.len();
        ensure!(p.len() == c, "periodic-poly-length", "periodic polynomial has {} coefficients for a cycle of {c}", p.len());
        for st in 0..n {
            let x = g.exp(S::pint(st as u128)).exp(S::pint((n / c) as u128));
            let got = S::to_int(&polynom::eval(p, x));
            ensure!(got == vals[st % c] % S::P, "periodic-value", "{}: periodic column (cycle {c}, n = {n}) evaluates to {got} at step {st}, cycle value is {}", S::NAME, vals[st % c]);
        }
    }
    Ok(())
}
