fn main() {
    vcore::main_with(vair::props());
}
