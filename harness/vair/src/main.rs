//! C21, C23, C24, C25 (and the constraint-level part of C22, shared with vstark through vgen).

use vcore::*;

mod c21;
mod c23;
mod c24;
mod c25;

fn main() {
    vref::field::startup_selfcheck();
    let c22 = Prop {
        id: "C22",
        level: "exploration",
        rule: vgen::c22::C22_RULE,
        assumptions: vgen::c22::c22_assumptions(),
        subs: vgen::c22::c22_subs(),
        required: vgen::c22::C22_REQUIRED.to_vec(),
        required_thorough: vec![],
    };
    main_with(vec![c21::prop(), c22, c23::prop(), c24::prop(), c25::prop()]);
}
