//! C25 — security estimates are monotone and bounded, and option checks match.

use vcore::*;
use vgen::options::OptSpec;
use winter_air::proof::{Context, Proof};
use winter_air::TraceInfo;
use winter_crypto::hashers::{Blake3_192, Blake3_256, Rp62_248};
use winter_crypto::Hasher;
use winter_math::fields::{f128, f62, f64};
use winter_verifier::AcceptableOptions;

pub fn prop() -> Prop {
    Prop {
        id: "C25",
        level: "exploration",
        rule: "case = (valid ProofOptions from the whole documented range; field bits in {62, 64, 128}; collision resistance in {96, 124, 128, 16..256}; trace length 2^3..2^24; constraints 1..2^16; committed polynomials 2..400). Oracle: conjectured <= collision resistance, conjectured < field_bits * extension degree, conjectured equals an independent re-statement of the documented formula; proven (both regimes) <= collision resistance; each estimate is non-decreasing under queries+1, grinding+1 and a larger extension degree with everything else fixed; is_at_least(b) <=> bits >= b; AcceptableOptions::validate on a proof carrying the generated context returns Ok <=> computed level >= requested minimum, for thresholds level-1, level, level+1; OptionSet accepts <=> the proof's options are a member. Non-trivial = the threshold is within +-1 of the level, or a monotonicity step changes the value; distinct = hash of the parameters.",
        assumptions: vec![
            "documented conjectured formula: min(min(field_bits * degree, log2(blowup) * queries [+ grinding when that product >= 80]) - 1, collision resistance)",
            "AcceptableOptions::validate is exercised on Proof::new_dummy() with its public `context` field replaced by the generated context; hash functions Blake3_192 (96), Rp62_248 (124), Blake3_256 (128) supply the collision-resistance levels",
        ],
        subs: vec![Sub::gen("estimates", estimates, 64, 40_000, 2_000_000), Sub::gen("validate", validate, 64, 8_000, 400_000)],
        required: vec!["monotone_step_changes_value", "threshold_at_level", "option_set_member", "option_set_non_member", "grinding_counted", "grinding_not_counted", "capped_by_collision_resistance"],
        required_thorough: vec![],
    }
}

fn gen_opt(s: &mut Src) -> OptSpec {
    OptSpec {
        queries: match s.below(4) {
            0 => s.range(1, 8),
            1 => s.range(250, 254),
            _ => s.range(1, 254),
        } as usize,
        blowup: 1 << s.range(1, 7),
        grinding: s.range(0, 31) as u32,
        ext: s.range(1, 2) as u8,
        folding: 1 << s.range(1, 4),
        rem_degree: (1usize << s.range(0, 8)) - 1,
        batch_c: s.below(3) as u8,
        batch_d: s.below(3) as u8,
        partitions: 1,
        hash_rate: 1,
    }
}

fn conj_ref(o: &OptSpec, field_bits: u32, cr: u32) -> u32 {
    let field_security = field_bits * o.ext as u32;
    let per_query = (o.blowup as u32).ilog2();
    let mut q = per_query * o.queries as u32;
    if q >= 80 {
        q += o.grinding;
    }
    (field_security.min(q) - 1).min(cr)
}

fn estimates(s: &mut Src, rec: &mut Rec) -> CaseResult {
    match s.below(5) {
        0 => estimates_h::<f62::BaseElement, Rp62_248>(s, rec, 62, 124),
        1 => estimates_h::<f64::BaseElement, Blake3_192<f64::BaseElement>>(s, rec, 64, 96),
        2 => estimates_h::<f128::BaseElement, Blake3_256<f128::BaseElement>>(s, rec, 128, 128),
        3 => estimates_h::<f64::BaseElement, Blake3_256<f64::BaseElement>>(s, rec, 64, 128),
        _ => estimates_h::<f128::BaseElement, Blake3_192<f128::BaseElement>>(s, rec, 128, 96),
    }
}

fn estimates_h<B: winter_math::StarkField, H: Hasher>(s: &mut Src, rec: &mut Rec, field_bits: u32, cr: u32) -> CaseResult {
    let o = gen_opt(s);
    let log_len = s.range(3, 24) as u32;
    let n = 1usize << log_len;
    let ncons = s.range(1, 1 << 16) as usize;
    let width = s.range(1, 255) as usize;
    rec.set_fp(&(format!("{o:?}"), field_bits, cr, n, ncons, width));
    rec.describe(|| json!({"options": o.describe(), "field_bits": field_bits, "collision_resistance": cr, "trace_length": n, "constraints": ncons, "trace_width": width}));
    ensure!(H::COLLISION_RESISTANCE == cr, "collision-resistance-constant", "COLLISION_RESISTANCE = {} but the documented level is {cr}", H::COLLISION_RESISTANCE);
    let mk = |o: &OptSpec| {
        let mut proof = Proof::new_dummy();
        proof.context = Context::new::<B>(TraceInfo::new(width, n), o.build(), ncons);
        proof
    };
    // (conjectured bits, ldr bits, udr bits)
    let levels = |o: &OptSpec| -> Result<(u32, u32, u32), PanicInfo> {
        catch(|| {
            let p = mk(o);
            let c = p.conjectured_security::<H>();
            let pr = p.proven_security::<H>();
            (c.bits(), pr.ldr_bits(), pr.udr_bits())
        })
    };
    let (c, ldr, udr) = match levels(&o) {
        Ok(x) => x,
        Err(pn) => return Err(Fail::new(pn.key(), format!("security computation panicked on valid options {o:?} (n = {n}, constraints {ncons}, width {width}): {}", pn.message))),
    };
    ensure!(c <= cr, "conjectured-above-collision-resistance", "conjectured {c} > collision resistance {cr} ({o:?})");
    ensure!(c < field_bits * o.ext as u32, "conjectured-not-below-field-size", "conjectured {c} >= extension field bits {} ({o:?})", field_bits * o.ext as u32);
    let want = conj_ref(&o, field_bits, cr);
    ensure!(c == want, "conjectured-formula", "conjectured security {c} but the documented formula gives {want} ({o:?}, field bits {field_bits}, CR {cr})");
    rec.class_if(c == cr, "capped_by_collision_resistance");
    rec.class(if (o.blowup as u32).ilog2() * o.queries as u32 >= 80 { "grinding_counted" } else { "grinding_not_counted" });
    ensure!(ldr <= cr && udr <= cr, "proven-above-collision-resistance", "proven security (ldr {ldr}, udr {udr}) exceeds collision resistance {cr}");
    {
        let p = mk(&o);
        let cs = p.conjectured_security::<H>();
        for b in [0, c.saturating_sub(1), c, c + 1, 255] {
            ensure!(cs.is_at_least(b) == (c >= b), "conjectured-is_at_least", "is_at_least({b}) = {} with bits = {c}", cs.is_at_least(b));
        }
        let ps = p.proven_security::<H>();
        let pmax = ldr.max(udr);
        for b in [0, pmax.saturating_sub(1), pmax, pmax + 1, 255] {
            ensure!(ps.is_at_least(b) == (pmax >= b), "proven-is_at_least", "proven is_at_least({b}) = {} with ldr {ldr} udr {udr}", ps.is_at_least(b));
        }
    }
    // monotonicity: queries + 1, grinding + 1, next extension degree
    let mut steps: Vec<(&str, OptSpec)> = vec![];
    if o.queries < 255 {
        let mut x = o.clone();
        x.queries += 1;
        steps.push(("queries+1", x));
    }
    if o.grinding < 32 {
        let mut x = o.clone();
        x.grinding += 1;
        steps.push(("grinding+1", x));
    }
    if o.ext < 3 {
        let mut x = o.clone();
        x.ext += 1;
        steps.push(("extension+1", x));
    }
    for (what, o2) in steps {
        let (c2, ldr2, udr2) = levels(&o2).map_err(|pn| Fail::new(pn.key(), pn.message.clone()))?;
        if c2 != c || ldr2 != ldr || udr2 != udr {
            rec.class("monotone_step_changes_value");
            rec.nontrivial();
        }
        ensure!(c2 >= c, format!("conjectured-not-monotone:{what}"), "conjectured security decreased from {c} to {c2} under {what} ({o:?})");
        ensure!(ldr2 >= ldr, format!("proven-ldr-not-monotone:{what}"), "proven (list-decoding) security decreased from {ldr} to {ldr2} under {what} ({o:?}, n = {n}, constraints {ncons}, width {width}, field bits {field_bits}, CR {cr})");
        ensure!(udr2 >= udr, format!("proven-udr-not-monotone:{what}"), "proven (unique-decoding) security decreased from {udr} to {udr2} under {what} ({o:?}, n = {n}, constraints {ncons}, width {width}, field bits {field_bits}, CR {cr})");
    }
    Ok(())
}

fn validate(s: &mut Src, rec: &mut Rec) -> CaseResult {
    match s.below(3) {
        0 => validate_h::<f64::BaseElement, Blake3_192<f64::BaseElement>>(s, rec, "Blake3_192<f64>"),
        1 => validate_h::<f62::BaseElement, Rp62_248>(s, rec, "Rp62_248"),
        _ => validate_h::<f128::BaseElement, Blake3_256<f128::BaseElement>>(s, rec, "Blake3_256<f128>"),
    }
}

fn validate_h<B: winter_math::StarkField, H: Hasher>(s: &mut Src, rec: &mut Rec, hname: &str) -> CaseResult {
    let o = gen_opt(s);
    let log_len = s.range(3, 20) as u32;
    let width = s.range(1, 200) as usize;
    let ncons = s.range(1, 5000) as usize;
    let options = o.build();
    let mut proof = Proof::new_dummy();
    proof.context = Context::new::<B>(TraceInfo::new(width, 1usize << log_len), options.clone(), ncons);
    rec.set_fp(&(hname, format!("{o:?}"), log_len, width, ncons, s.consumed()));
    rec.describe(|| json!({"hasher": hname, "options": o.describe(), "trace_length": 1usize << log_len, "width": width, "constraints": ncons}));
    let conj = proof.conjectured_security::<H>();
    let prov = proof.proven_security::<H>();
    let plevel = prov.ldr_bits().max(prov.udr_bits());
    for (what, level) in [("conjectured", conj.bits()), ("proven", plevel)] {
        for t in [level.saturating_sub(1), level, level + 1] {
            let acc = if what == "conjectured" { AcceptableOptions::MinConjecturedSecurity(t) } else { AcceptableOptions::MinProvenSecurity(t) };
            let got = match catch(|| acc.validate::<H>(&proof)) {
                Ok(r) => r.is_ok(),
                Err(pn) => return Err(Fail::new(pn.key(), format!("AcceptableOptions::validate panicked: {}", pn.message))),
            };
            rec.class_if(t == level, "threshold_at_level");
            rec.nontrivial();
            ensure!(got == (level >= t), format!("validate-{what}-mismatch"), "{hname}: AcceptableOptions::Min{what}Security({t}).validate = {} but the computed {what} security is {level} ({o:?})", if got { "Ok" } else { "Err" });
        }
    }
    // option sets: member <=> accepted; twins differing in a single field (incl. partitions / batching) are non-members
    let mut others: Vec<OptSpec> = vec![];
    for k in 0..6 {
        let mut x = o.clone();
        match k {
            0 => x.queries = o.queries % 255 + 1,
            1 => x.grinding = (o.grinding + 1) % 33,
            2 => x.batch_d = (o.batch_d + 1) % 3,
            3 => x.partitions = 2,
            4 => x.folding = if o.folding == 16 { 2 } else { o.folding * 2 },
            _ => x.ext = o.ext % 3 + 1,
        }
        others.push(x);
    }
    let with_member = s.bool();
    let mut set: Vec<_> = others.iter().take(s.range(0, 6) as usize).map(|x| x.build()).collect();
    if with_member {
        let at = s.below(set.len() as u64 + 1) as usize;
        set.insert(at, options.clone());
    }
    rec.class(if with_member { "option_set_member" } else { "option_set_non_member" });
    let got = AcceptableOptions::OptionSet(set).validate::<H>(&proof).is_ok();
    ensure!(got == with_member, "option-set-mismatch", "{hname}: OptionSet.validate = {} but the proof's options are {}a member of the set ({o:?})", if got { "Ok" } else { "Err" }, if with_member { "" } else { "not " });
    Ok(())
}
