//! C24 — the public-coin seed binds the proof context.

use vcore::*;
use vfield::*;
use vgen::options::OptSpec;
use winter_air::proof::Context;
use winter_air::TraceInfo;
use winter_math::{StarkField, ToElements};

pub fn prop() -> Prop {
    Prop {
        id: "C24",
        level: "exploration",
        rule: "case = a valid context (through Context::new over f62 / f64 / f128) and a twin differing in exactly one listed parameter: main width, aux width, number of aux random elements, trace length, metadata (different byte / longer / shorter / trailing zero bytes inside and across the chunk boundary / empty vs [0] / an element-wide window holding v vs v - p), field modulus, constraint count, extension, blowup, folding, remainder degree, grinding, queries. Oracle: a.to_elements() != b.to_elements(). Parameters the property does not list (batching methods, partitions) are recorded, not asserted. Non-trivial = the twin differs in exactly one listed parameter (always, by construction); distinct = hash of (field, base context, parameter, new value).",
        assumptions: vec![
            "contexts are built with Context::new, which limits trace length and LDE size to 2^32 - 1",
            "the seed field equals the context's field, except for the modulus twin where the seed is computed over f128 (so that the other moduli fit the element width)",
        ],
        subs: vec![Sub::gen("twins", twins, 64, 200_000, 6_000_000)],
        required: vec!["param:main_width", "param:aux_width", "param:aux_rands", "param:trace_length", "param:meta_byte", "param:meta_longer", "param:meta_trailing_zeros", "param:meta_empty_vs_zero", "param:meta_window_congruent", "param:modulus", "param:constraints", "param:extension", "param:blowup", "param:folding", "param:remainder", "param:grinding", "param:queries"],
        required_thorough: vec![],
    }
}

#[derive(Clone, Debug)]
struct Ctx {
    main: usize,
    aux: usize,
    rands: usize,
    log_len: u32,
    meta: Vec<u8>,
    constraints: usize,
    opt: OptSpec,
}

fn build<S: Spec, E: StarkField>(c: &Ctx) -> Result<Vec<E>, PanicInfo> {
    catch(|| {
        let info = TraceInfo::new_multi_segment(c.main, c.aux, c.rands, 1usize << c.log_len, c.meta.clone());
        let ctx = Context::new::<S::B>(info, c.opt.build(), c.constraints);
        ToElements::<E>::to_elements(&ctx)
    })
}

fn twins(s: &mut Src, rec: &mut Rec) -> CaseResult {
    match s.below(3) {
        0 => run::<F62>(s, rec),
        1 => run::<F64>(s, rec),
        _ => run::<F128>(s, rec),
    }
}

fn run<S: Spec>(s: &mut Src, rec: &mut Rec) -> CaseResult {
    let chunk = (S::BITS as usize).div_ceil(8).next_power_of_two() - 1;
    let meta_len = match s.below(5) {
        0 => 0,
        1 => s.range(1, chunk as u64) as usize,
        2 => chunk,
        3 => chunk + s.range(1, 3) as usize,
        _ => s.range(0, 40) as usize,
    };
    let has_aux = s.bool();
    let main = s.range(1, 100) as usize;
    let base = Ctx {
        main,
        aux: if has_aux { s.range(1, 100) as usize } else { 0 },
        rands: if has_aux { s.range(0, 200) as usize } else { 0 },
        log_len: s.range(3, 22) as u32,
        meta: s.bytes(meta_len),
        constraints: s.range(1, 100_000) as usize,
        opt: OptSpec {
            queries: s.range(1, 255) as usize,
            blowup: 1 << s.range(1, 7),
            grinding: s.range(0, 32) as u32,
            ext: s.range(1, 3) as u8,
            folding: 1 << s.range(1, 4),
            rem_degree: (1usize << s.range(0, 8)) - 1,
            batch_c: s.below(3) as u8,
            batch_d: s.below(3) as u8,
            partitions: s.range(1, 16) as usize,
            hash_rate: s.range(1, 255) as usize,
        },
    };
    let mut twin = base.clone();
    let param = s.below(19);
    #[allow(unused_assignments)]
    let mut pname = "";
    let mut listed = true;
    let mut seed_over_f128 = false;
    match param {
        0 => {
            pname = "main_width";
            twin.main = if base.main == 100 { 99 } else { base.main + 1 + s.below(50) as usize };
        },
        1 => {
            pname = "aux_width";
            twin.aux = if base.aux == 0 { s.range(1, 100) as usize } else if s.bool() { 0 } else { base.aux % 100 + 1 };
            if twin.aux == 0 {
                twin.rands = 0;
                // removing the segment also removes its random elements: two listed parameters change; still must differ
            }
        },
        2 => {
            pname = "aux_rands";
            if base.aux == 0 {
                twin.aux = 5;
                let mut b2 = base.clone();
                b2.aux = 5;
                b2.rands = 3;
                twin.rands = 4;
                return compare::<S>(&b2, &twin, pname, true, false, rec);
            }
            twin.rands = (base.rands + 1 + s.below(50) as usize) % 256;
        },
        3 => {
            pname = "trace_length";
            twin.log_len = if base.log_len == 22 { 21 } else { base.log_len + 1 };
        },
        4 => {
            pname = "meta_byte";
            if base.meta.is_empty() {
                twin.meta = vec![s.u8().max(1)];
            } else {
                let i = s.below(base.meta.len() as u64) as usize;
                twin.meta[i] = base.meta[i].wrapping_add(1 + s.below(254) as u8);
            }
        },
        5 => {
            pname = "meta_longer";
            let extra = s.range(1, 20) as usize;
            let mut e = s.bytes(extra);
            *e.last_mut().unwrap() |= 1; // last appended byte non-zero: not a trailing-zero twin
            twin.meta.extend(e);
        },
        6 => {
            pname = "meta_trailing_zeros";
            let k = s.range(1, 2 * chunk as u64 + 2) as usize;
            twin.meta.extend(std::iter::repeat(0u8).take(k));
            if base.meta.is_empty() {
                pname = "meta_empty_vs_zero";
            }
        },
        7 => {
            pname = "meta_empty_vs_zero";
            let mut b2 = base.clone();
            b2.meta = vec![];
            twin.meta = vec![0; s.range(1, 3) as usize];
            return compare::<S>(&b2, &twin, pname, true, false, rec);
        },
        8 => {
            pname = "modulus";
            seed_over_f128 = true;
        },
        9 => {
            pname = "constraints";
            twin.constraints = base.constraints + 1 + s.below(1000) as usize;
        },
        10 => {
            pname = "extension";
            twin.opt.ext = base.opt.ext % 3 + 1;
        },
        11 => {
            pname = "blowup";
            twin.opt.blowup = if base.opt.blowup == 128 { 64 } else { base.opt.blowup * 2 };
        },
        12 => {
            pname = "folding";
            twin.opt.folding = if base.opt.folding == 16 { 2 } else { base.opt.folding * 2 };
        },
        13 => {
            pname = "remainder";
            twin.opt.rem_degree = if base.opt.rem_degree == 255 { 127 } else { base.opt.rem_degree * 2 + 1 };
        },
        14 => {
            pname = "grinding";
            twin.opt.grinding = (base.opt.grinding + 1 + s.below(31) as u32) % 33;
        },
        15 => {
            pname = "queries";
            twin.opt.queries = base.opt.queries % 255 + 1;
        },
        18 => {
            // same length, non-zero difference: one element-wide window of the metadata holds the integer v
            // in one context and v - p (p = field modulus) in the other; a packing that lets a chunk reach
            // the modulus and reduces it would map both to the same element
            pname = "meta_window_congruent";
            let eb = chunk + 1; // element width in bytes
            let len = s.range(eb as u64, 3 * eb as u64 + 2) as usize;
            let mut m = s.bytes(len);
            // window start: aligned to the element width, to the packing chunk (width - 1), or anywhere
            let w = match s.below(3) {
                0 => (s.below(((len - eb) / eb + 1) as u64) as usize) * eb,
                1 => ((s.below(((len - eb) / chunk + 1) as u64) as usize) * chunk).min(len - eb),
                _ => s.below((len - eb + 1) as u64) as usize,
            };
            for b in m[w..w + eb].iter_mut() {
                *b = 0xff;
            }
            // v = 2^(8 eb) - 1 - (low random part), still >= p
            let low = s.below(1 << 20) as u128;
            let v: u128 = if eb == 16 { u128::MAX - low } else { ((1u128 << (8 * eb)) - 1) - low };
            m[w..w + eb].copy_from_slice(&v.to_le_bytes()[..eb]);
            let mut b2 = base.clone();
            b2.meta = m.clone();
            let v2 = v - S::P;
            m[w..w + eb].copy_from_slice(&v2.to_le_bytes()[..eb]);
            twin.meta = m;
            return compare::<S>(&b2, &twin, pname, true, false, rec);
        },
        16 => {
            pname = "batching(unlisted)";
            listed = false;
            twin.opt.batch_c = (base.opt.batch_c + 1) % 3;
        },
        _ => {
            pname = "partitions(unlisted)";
            listed = false;
            twin.opt.partitions = base.opt.partitions % 16 + 1;
        },
    }
    compare::<S>(&base, &twin, pname, listed, seed_over_f128, rec)
}

fn compare<S: Spec>(a: &Ctx, b: &Ctx, pname: &str, listed: bool, modulus_twin: bool, rec: &mut Rec) -> CaseResult {
    rec.class(&format!("param:{pname}"));
    rec.nontrivial();
    rec.set_fp(&(S::NAME, format!("{a:?}"), pname, format!("{b:?}")));
    rec.describe(|| json!({"field": S::NAME, "parameter": pname, "base": format!("{a:?}"), "twin": format!("{b:?}")}));
    let (ea, eb): (Result<Vec<u128>, PanicInfo>, Result<Vec<u128>, PanicInfo>) = if modulus_twin {
        // same context described over two different fields, seeds computed by a verifier over f128
        let x = build::<S, <F128 as Spec>::B>(a).map(|v| v.iter().map(|e| F128::to_int(e)).collect());
        let y = if S::NAME == "f64" { build::<F62, <F128 as Spec>::B>(a) } else { build::<F64, <F128 as Spec>::B>(a) }.map(|v| v.iter().map(|e| F128::to_int(e)).collect());
        (x, y)
    } else {
        (build::<S, S::B>(a).map(|v| v.iter().map(|e| S::to_int(e)).collect()), build::<S, S::B>(b).map(|v| v.iter().map(|e| S::to_int(e)).collect()))
    };
    let (ea, eb) = match (ea, eb) {
        (Ok(x), Ok(y)) => (x, y),
        (Err(pn), _) | (_, Err(pn)) => return Err(Fail::new(pn.key(), format!("building the seed elements of a valid context panicked: {} at {}", pn.message, pn.location))),
    };
    if !listed {
        rec.class(if ea == eb { "unlisted_parameter_not_bound" } else { "unlisted_parameter_bound" });
        return Ok(());
    }
    if ea == eb {
        let key = if pname == "meta_trailing_zeros" { "seed-collision:meta-trailing-zeros-same-chunk-count".to_string() } else { format!("seed-collision:{pname}") };
        return Err(Fail::new(key, format!("{}: two contexts differing in {pname} have identical seed elements {:?} (base {a:?}; twin {b:?})", S::NAME, &ea[..ea.len().min(6)])));
    }
    Ok(())
}
