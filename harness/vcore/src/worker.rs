//! Worker-subprocess isolation: cases whose failure mode kills or wedges the process (aborts on
//! oversized allocations, non-termination) run in `<bin> --prop <id> --worker <sub>`, which sets
//! RLIMIT_AS on itself, reads one case at a time on stdin and answers one JSON record per case.

use std::io::{Read, Write};
use std::process::{Child, ChildStdin, Command, Stdio};
use std::sync::mpsc::{channel, Receiver, RecvTimeoutError};
use std::sync::{Arc, Mutex};
use std::time::Duration;

use serde_json::{json, Value};

use crate::{run_case_inproc, CaseResult, Fail, Kind, Prop, Rec};

pub struct WorkerHandle {
    child: Child,
    stdin: Option<ChildStdin>,
    rx: Receiver<Vec<u8>>,
    stderr_tail: Arc<Mutex<Vec<u8>>>,
}

impl WorkerHandle {
    pub fn spawn(prop: &str, sub: &str) -> WorkerHandle {
        let exe = std::env::current_exe().expect("current_exe");
        let mut child = Command::new(exe)
            .args(["--prop", prop, "--worker", sub])
            .stdin(Stdio::piped())
            .stdout(Stdio::piped())
            .stderr(Stdio::piped())
            .spawn()
            .expect("spawn worker");
        let stdin = child.stdin.take();
        let mut stdout = child.stdout.take().unwrap();
        let mut stderr = child.stderr.take().unwrap();
        let (tx, rx) = channel();
        std::thread::spawn(move || loop {
            let mut len = [0u8; 4];
            if stdout.read_exact(&mut len).is_err() {
                break;
            }
            let n = u32::from_le_bytes(len) as usize;
            let mut buf = vec![0u8; n];
            if stdout.read_exact(&mut buf).is_err() {
                break;
            }
            if tx.send(buf).is_err() {
                break;
            }
        });
        let stderr_tail = Arc::new(Mutex::new(Vec::new()));
        let tail = stderr_tail.clone();
        std::thread::spawn(move || {
            let mut buf = [0u8; 1024];
            loop {
                match stderr.read(&mut buf) {
                    Ok(0) | Err(_) => break,
                    Ok(n) => {
                        let mut t = tail.lock().unwrap();
                        t.extend_from_slice(&buf[..n]);
                        if t.len() > 4096 {
                            let cut = t.len() - 4096;
                            t.drain(..cut);
                        }
                    },
                }
            }
        });
        WorkerHandle { child, stdin, rx, stderr_tail }
    }

    pub fn kill(&mut self) {
        self.stdin.take();
        let _ = self.child.kill();
        let _ = self.child.wait();
    }

    fn send(&mut self, choices: &[u64], want_desc: bool) -> bool {
        let Some(stdin) = self.stdin.as_mut() else { return false };
        let mut msg = Vec::with_capacity(5 + choices.len() * 8);
        msg.push(want_desc as u8);
        msg.extend_from_slice(&(choices.len() as u32).to_le_bytes());
        for c in choices {
            msg.extend_from_slice(&c.to_le_bytes());
        }
        stdin.write_all(&msg).and_then(|_| stdin.flush()).is_ok()
    }
}

pub enum IsoOutcome {
    Done(Rec, u64, CaseResult),
    InconclusiveHang,
}

fn collapse_digits(s: &str) -> String {
    let mut m = String::new();
    let mut last = false;
    for ch in s.chars().take(100) {
        if ch.is_ascii_digit() {
            if !last {
                m.push('N');
            }
            last = true;
        } else {
            last = false;
            m.push(ch);
        }
    }
    m
}

fn parse_reply(buf: &[u8]) -> (Rec, u64, CaseResult) {
    let v: Value = serde_json::from_slice(buf).unwrap_or(Value::Null);
    let mut rec = Rec::default();
    if let Some(cs) = v["classes"].as_array() {
        rec.classes = cs.iter().filter_map(|c| c.as_str().map(|s| s.to_string())).collect();
    }
    rec.nontrivial = v["nontrivial"].as_bool().unwrap_or(false);
    rec.fp = v["fp"].as_u64();
    rec.weight = v["weight"].as_u64().unwrap_or(1);
    if !v["desc"].is_null() {
        rec.desc = Some(v["desc"].clone());
    }
    if let Some(kh) = v["known_hits"].as_array() {
        for k in kh {
            rec.known_hits.push((k[0].as_str().unwrap_or("").to_string(), k[1].as_str().unwrap_or("").to_string()));
        }
    }
    let res = if v["ok"].as_bool().unwrap_or(false) {
        Ok(())
    } else {
        Err(Fail::new(v["key"].as_str().unwrap_or("worker-bad-reply"), v["msg"].as_str().unwrap_or("")))
    };
    (rec, v["default_fp"].as_u64().unwrap_or(0), res)
}

/// Runs one case in the worker, attributing a death or a timeout to exactly this case.
pub fn run_case_isolated(
    w: &mut WorkerHandle,
    prop: &str,
    sub: &str,
    choices: &[u64],
    want_desc: bool,
    timeout: Duration,
    hang_is_violation: bool,
) -> IsoOutcome {
    run_case_isolated_ext(w, prop, sub, choices, want_desc, timeout, hang_is_violation, false)
}

/// `shrinking`: a timeout is reported as a hang at once (no 20x retry); used only while
/// minimising an already confirmed failure, the minimal case is re-verified with the full budget.
#[allow(clippy::too_many_arguments)]
pub fn run_case_isolated_ext(
    w: &mut WorkerHandle,
    prop: &str,
    sub: &str,
    choices: &[u64],
    want_desc: bool,
    timeout: Duration,
    hang_is_violation: bool,
    shrinking: bool,
) -> IsoOutcome {
    let mut budget = timeout;
    for attempt in 0..2 {
        if !w.send(choices, want_desc) {
            // worker is gone (should not happen between cases); restart and retry
            w.kill();
            *w = WorkerHandle::spawn(prop, sub);
            if !w.send(choices, want_desc) {
                return IsoOutcome::Done(Rec::default(), 0, Err(Fail::new("harness-worker-unusable", "cannot talk to worker")));
            }
        }
        match w.rx.recv_timeout(budget) {
            Ok(buf) => {
                let (rec, fp, res) = parse_reply(&buf);
                return IsoOutcome::Done(rec, fp, res);
            },
            Err(RecvTimeoutError::Timeout) => {
                w.kill();
                *w = WorkerHandle::spawn(prop, sub);
                if shrinking {
                    return IsoOutcome::Done(Rec::default(), 0, Err(Fail::new("hang", "timed out while shrinking")));
                }
                if attempt == 0 {
                    // retry alone with a 20x budget before calling it a hang
                    budget = timeout * 20;
                    continue;
                }
                if hang_is_violation {
                    return IsoOutcome::Done(
                        Rec::default(),
                        0,
                        Err(Fail::new("hang", format!("case did not finish within {:?} (20x the per-case budget), run alone", budget))),
                    );
                }
                return IsoOutcome::InconclusiveHang;
            },
            Err(RecvTimeoutError::Disconnected) => {
                // the worker died while running this case
                w.stdin.take();
                let status = w.child.wait().ok();
                std::thread::sleep(Duration::from_millis(5));
                let tail = String::from_utf8_lossy(&w.stderr_tail.lock().unwrap()).to_string();
                let last_line = tail.lines().filter(|l| !l.trim().is_empty()).last().unwrap_or("").to_string();
                #[cfg(unix)]
                let how = {
                    use std::os::unix::process::ExitStatusExt;
                    match status {
                        Some(s) => match s.signal() {
                            Some(sig) => format!("signal{sig}"),
                            None => format!("exit{}", s.code().unwrap_or(-1)),
                        },
                        None => "unknown".into(),
                    }
                };
                *w = WorkerHandle::spawn(prop, sub);
                return IsoOutcome::Done(
                    Rec::default(),
                    0,
                    Err(Fail::new(
                        format!("abort:{how}: {}", collapse_digits(&last_line)),
                        format!("worker process died ({how}); stderr tail: {}", tail.chars().rev().take(300).collect::<String>().chars().rev().collect::<String>()),
                    )),
                );
            },
        }
    }
    IsoOutcome::InconclusiveHang
}

/// Body of the worker process.
pub fn worker_main(prop: &'static Prop, sub_name: &str) -> ! {
    let limit_mb: u64 = std::env::var("VERIF_WORKER_AS_MB").ok().and_then(|s| s.parse().ok()).unwrap_or(4096);
    unsafe {
        let lim = libc::rlimit { rlim_cur: limit_mb << 20, rlim_max: limit_mb << 20 };
        libc::setrlimit(libc::RLIMIT_AS, &lim);
        let core = libc::rlimit { rlim_cur: 0, rlim_max: 0 };
        libc::setrlimit(libc::RLIMIT_CORE, &core);
    }
    let Some(sub) = prop.subs.iter().find(|s| s.name == sub_name) else {
        eprintln!("no such sub-check {sub_name}");
        std::process::exit(2);
    };
    let Kind::Gen(f, _) = &sub.kind else {
        eprintln!("sub-check {sub_name} is not generated");
        std::process::exit(2);
    };
    let stdin = std::io::stdin();
    let mut stdin = stdin.lock();
    let stdout = std::io::stdout();
    let mut stdout = stdout.lock();
    loop {
        let mut hdr = [0u8; 5];
        if stdin.read_exact(&mut hdr).is_err() {
            std::process::exit(0);
        }
        let want_desc = hdr[0] != 0;
        let n = u32::from_le_bytes([hdr[1], hdr[2], hdr[3], hdr[4]]) as usize;
        let mut raw = vec![0u8; n * 8];
        if stdin.read_exact(&mut raw).is_err() {
            std::process::exit(0);
        }
        let choices: Vec<u64> = raw.chunks(8).map(|c| u64::from_le_bytes(c.try_into().unwrap())).collect();
        let (rec, fp, res) = run_case_inproc(*f, &choices, want_desc, false);
        let reply = json!({
            "ok": res.is_ok(),
            "key": res.as_ref().err().map(|f| f.key.clone()),
            "msg": res.as_ref().err().map(|f| f.msg.clone()),
            "classes": rec.classes,
            "nontrivial": rec.nontrivial,
            "fp": rec.fp,
            "default_fp": fp,
            "weight": rec.weight,
            "desc": rec.desc,
            "known_hits": rec.known_hits.iter().map(|(a, b)| json!([a, b])).collect::<Vec<_>>(),
        });
        let bytes = serde_json::to_vec(&reply).unwrap();
        let _ = stdout.write_all(&(bytes.len() as u32).to_le_bytes());
        let _ = stdout.write_all(&bytes);
        let _ = stdout.flush();
    }
}
