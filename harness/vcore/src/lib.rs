//! vcore — the engine shared by every check (DESIGN.md 2.3).
//!
//! A *case* is a vector of u64 "choices" produced and shrunk by proptest; a sub-check is a plain
//! function that decodes the choices through [`Src`] into structured arguments, runs the code
//! under test against its oracle and reports the outcome through [`Rec`]. Because the case is a
//! plain vector, a shrunk failure is a JSON file that replays through the same function without
//! proptest, and the same decoders can be driven by libFuzzer bytes.

use std::cell::RefCell;
use std::collections::{BTreeMap, HashSet};
use std::hash::{Hash, Hasher};
use std::io::{Read, Write};
use std::panic::{self, AssertUnwindSafe};
use std::sync::atomic::{AtomicBool, Ordering};
use std::sync::Mutex;
use std::time::{Duration, Instant};

use proptest::strategy::{Strategy, ValueTree};
use proptest::test_runner::{Config, RngAlgorithm, TestCaseError, TestError, TestRng, TestRunner};
pub use serde_json::{json, Value};

pub mod worker;

// CHOICE SOURCE
// ================================================================================================

/// Decoder of a choice sequence. Every draw consumes one u64 (or more for wide values); when the
/// sequence is exhausted draws return 0, so truncated sequences decode to the simplest case.
pub struct Src<'a> {
    data: &'a [u64],
    pos: usize,
    /// decoded values, hashed into the default fingerprint
    trace_hash: Fnv,
}

impl<'a> Src<'a> {
    pub fn new(data: &'a [u64]) -> Self {
        Src { data, pos: 0, trace_hash: Fnv::new() }
    }
    #[inline]
    fn raw(&mut self) -> u64 {
        let v = self.data.get(self.pos).copied().unwrap_or(0);
        self.pos += 1;
        v
    }
    pub fn consumed(&self) -> usize {
        self.pos
    }
    pub fn exhausted(&self) -> bool {
        self.pos > self.data.len()
    }
    /// full-range u64
    pub fn u64(&mut self) -> u64 {
        let v = self.raw();
        self.trace_hash.write_u64(v);
        v
    }
    pub fn u128(&mut self) -> u128 {
        let lo = self.u64() as u128;
        let hi = self.u64() as u128;
        (hi << 64) | lo
    }
    /// value in 0..n (n ≥ 1), monotone in the underlying choice so shrinking moves toward 0
    pub fn below(&mut self, n: u64) -> u64 {
        debug_assert!(n >= 1);
        let r = self.raw();
        let v = ((r as u128 * n as u128) >> 64) as u64;
        self.trace_hash.write_u64(v);
        v
    }
    /// value in lo..=hi
    pub fn range(&mut self, lo: u64, hi: u64) -> u64 {
        if hi <= lo {
            return lo;
        }
        let span = hi - lo;
        if span == u64::MAX {
            return self.u64();
        }
        lo + self.below(span + 1)
    }
    pub fn usize_in(&mut self, lo: usize, hi: usize) -> usize {
        self.range(lo as u64, hi as u64) as usize
    }
    pub fn bool(&mut self) -> bool {
        self.below(2) == 1
    }
    /// true with probability num/den
    pub fn chance(&mut self, num: u64, den: u64) -> bool {
        // reversed so that the all-zero sequence gives `false`
        self.below(den) >= den - num
    }
    pub fn pick<'b, T>(&mut self, xs: &'b [T]) -> &'b T {
        &xs[self.below(xs.len() as u64) as usize]
    }
    pub fn pick_copy<T: Copy>(&mut self, xs: &[T]) -> T {
        xs[self.below(xs.len() as u64) as usize]
    }
    /// index chosen by weights
    pub fn weighted(&mut self, weights: &[u32]) -> usize {
        let total: u64 = weights.iter().map(|w| *w as u64).sum();
        let mut x = self.below(total.max(1));
        for (i, w) in weights.iter().enumerate() {
            if x < *w as u64 {
                return i;
            }
            x -= *w as u64;
        }
        weights.len() - 1
    }
    pub fn bytes(&mut self, len: usize) -> Vec<u8> {
        let mut out = Vec::with_capacity(len);
        while out.len() < len {
            let v = self.u64().to_le_bytes();
            let take = (len - out.len()).min(8);
            out.extend_from_slice(&v[..take]);
        }
        out
    }
    pub fn u8(&mut self) -> u8 {
        self.below(256) as u8
    }
    /// all remaining choices as one byte string: the next choice (mod 8) says how many bytes of the
    /// last word to drop, the rest are little-endian words (inverse: `encode_tail_bytes`)
    pub fn tail_bytes(&mut self) -> Vec<u8> {
        let drop = (self.raw() % 8) as usize;
        let mut out = Vec::new();
        while self.pos < self.data.len() {
            out.extend_from_slice(&self.raw().to_le_bytes());
        }
        let keep = out.len().saturating_sub(drop);
        out.truncate(keep);
        self.trace_hash.write(&out);
        out
    }
    /// a u64 biased towards interesting magnitudes: small, powers of two ±δ, max
    pub fn u64_biased(&mut self) -> u64 {
        match self.below(8) {
            0 => self.below(16),
            1 => {
                let k = self.below(64);
                let d = self.below(5) as i64 - 2;
                (1u64 << k).wrapping_add(d as u64)
            },
            2 => u64::MAX - self.below(16),
            3 => self.below(1 << 16),
            4 => self.below(1 << 32),
            _ => self.u64(),
        }
    }
    pub fn fingerprint(&self) -> u64 {
        self.trace_hash.finish()
    }
}

/// FNV-1a, used wherever a stable hash is needed (no dependence on std's hasher keys).
#[derive(Clone)]
pub struct Fnv(u64);
impl Fnv {
    pub fn new() -> Self {
        Fnv(0xcbf29ce484222325)
    }
}
impl Default for Fnv {
    fn default() -> Self {
        Self::new()
    }
}
impl Hasher for Fnv {
    fn finish(&self) -> u64 {
        // final avalanche
        let mut x = self.0;
        x ^= x >> 33;
        x = x.wrapping_mul(0xff51afd7ed558ccd);
        x ^= x >> 33;
        x
    }
    fn write(&mut self, bytes: &[u8]) {
        for b in bytes {
            self.0 ^= *b as u64;
            self.0 = self.0.wrapping_mul(0x100000001b3);
        }
    }
}
pub fn fnv_of<T: Hash + ?Sized>(t: &T) -> u64 {
    let mut h = Fnv::new();
    t.hash(&mut h);
    h.finish()
}

// CASE RECORD
// ================================================================================================

/// What a sub-check reports about one case (besides pass/fail).
#[derive(Default)]
pub struct Rec {
    pub classes: Vec<String>,
    pub nontrivial: bool,
    pub fp: Option<u64>,
    pub desc: Option<Value>,
    pub want_desc: bool,
    /// known-finding keys hit by this case (tolerated, search continues)
    pub known_hits: Vec<(String, String)>,
    /// number of inner evaluations this case performed (defaults to 1)
    pub weight: u64,
    /// when set the check is running in strict replay mode (known findings are not tolerated)
    pub strict: bool,
}

impl Rec {
    pub fn class(&mut self, c: &str) {
        if !self.classes.iter().any(|x| x == c) {
            self.classes.push(c.to_string());
        }
    }
    pub fn class_if(&mut self, cond: bool, c: &str) {
        if cond {
            self.class(c)
        }
    }
    pub fn nontrivial(&mut self) {
        self.nontrivial = true;
    }
    pub fn set_fp<T: Hash + ?Sized>(&mut self, t: &T) {
        self.fp = Some(fnv_of(t));
    }
    /// Describe the case for evidence samples / replay files. Evaluated lazily.
    pub fn describe<F: FnOnce() -> Value>(&mut self, f: F) {
        if self.want_desc && self.desc.is_none() {
            self.desc = Some(f());
        }
    }
    /// Like [`Rec::describe`] but replaces an earlier description (for cases described incrementally).
    pub fn redescribe<F: FnOnce() -> Value>(&mut self, f: F) {
        if self.want_desc {
            self.desc = Some(f());
        }
    }
}

#[derive(Debug, Clone)]
pub struct Fail {
    /// stable signature of the failure (what known_findings.json is keyed by)
    pub key: String,
    pub msg: String,
}
impl Fail {
    pub fn new(key: impl Into<String>, msg: impl Into<String>) -> Self {
        Fail { key: key.into(), msg: msg.into() }
    }
}
pub type CaseResult = Result<(), Fail>;

#[macro_export]
macro_rules! ensure {
    ($cond:expr, $key:expr, $($arg:tt)*) => {
        if !($cond) {
            return Err($crate::Fail::new($key, format!($($arg)*)));
        }
    };
}

// PANIC CAPTURE
// ================================================================================================

thread_local! {
    static LAST_PANIC: RefCell<Option<(String, String)>> = const { RefCell::new(None) };
}
static HOOK_INSTALLED: AtomicBool = AtomicBool::new(false);

/// known findings of the property being checked, for sub-checks that run many inner evaluations
/// per case and must keep searching past a recorded finding (set by `main_with` / the worker)
static GLOBAL_KNOWN: std::sync::OnceLock<(String, Known)> = std::sync::OnceLock::new();

impl Rec {
    /// If `key` is a recorded known finding of the current property (and the run is not a strict
    /// replay), counts it and returns true so that the caller can continue with its next inner case.
    pub fn tolerate_known(&mut self, key: &str) -> bool {
        if self.strict {
            return false;
        }
        if let Some((prop, known)) = GLOBAL_KNOWN.get() {
            if let Some(what) = known.lookup(prop, key) {
                if !self.known_hits.iter().any(|(k, _)| k == key) {
                    self.known_hits.push((key.to_string(), what));
                }
                return true;
            }
        }
        false
    }
}

/// Installs a silent panic hook that records (location, message) per thread.
pub fn install_panic_hook() {
    if HOOK_INSTALLED.swap(true, Ordering::SeqCst) {
        return;
    }
    panic::set_hook(Box::new(|info| {
        let loc = info
            .location()
            .map(|l| format!("{}:{}", l.file(), l.line()))
            .unwrap_or_else(|| "?".into());
        let msg = if let Some(s) = info.payload().downcast_ref::<&str>() {
            s.to_string()
        } else if let Some(s) = info.payload().downcast_ref::<String>() {
            s.clone()
        } else {
            "<non-string panic>".to_string()
        };
        LAST_PANIC.with(|p| *p.borrow_mut() = Some((loc, msg)));
    }));
}

#[derive(Debug, Clone)]
pub struct PanicInfo {
    pub location: String,
    pub message: String,
}
impl PanicInfo {
    /// Signature that is stable across line-number changes: source file (repo-relative, without
    /// line) plus the message with digits collapsed.
    pub fn key(&self) -> String {
        let file = self.location.rsplit_once(':').map(|x| x.0).unwrap_or(&self.location);
        let file = file.strip_prefix("/repo/").unwrap_or(file);
        // strip registry / rustlib prefixes
        let file = match file.find("/src/") {
            Some(_) if file.starts_with('/') => {
                let parts: Vec<&str> = file.split('/').collect();
                let n = parts.len();
                parts[n.saturating_sub(3)..].join("/")
            },
            _ => file.to_string(),
        };
        let mut m = String::new();
        let mut last_digit = false;
        for ch in self.message.chars().take(80) {
            if ch.is_ascii_digit() {
                if !last_digit {
                    m.push('N');
                }
                last_digit = true;
            } else {
                last_digit = false;
                m.push(ch);
            }
        }
        format!("panic@{file}: {m}")
    }
}

/// Runs `f`, converting a panic into `Err(PanicInfo)`.
pub fn catch<T>(f: impl FnOnce() -> T) -> Result<T, PanicInfo> {
    install_panic_hook();
    LAST_PANIC.with(|p| *p.borrow_mut() = None);
    match panic::catch_unwind(AssertUnwindSafe(f)) {
        Ok(v) => Ok(v),
        Err(_) => {
            let (location, message) = LAST_PANIC
                .with(|p| p.borrow_mut().take())
                .unwrap_or_else(|| ("?".into(), "?".into()));
            Err(PanicInfo { location, message })
        },
    }
}

// SUB-CHECK AND PROPERTY DEFINITIONS
// ================================================================================================

pub type CaseFn = fn(&mut Src, &mut Rec) -> CaseResult;
pub type ExhaustiveFn = fn(&mut Ex);

#[derive(Clone)]
pub enum Kind {
    /// generated cases: (function, number of u64 choices per case)
    Gen(CaseFn, usize),
    /// exhaustive enumeration of a finite space
    Exhaustive(ExhaustiveFn),
}

#[derive(Clone)]
pub struct Sub {
    pub name: &'static str,
    pub kind: Kind,
    pub quick: u64,
    pub thorough: u64,
    /// run each case in a worker subprocess (rlimit + per-case timeout)
    pub isolated: bool,
    /// per-case timeout for isolated sub-checks
    pub timeout_ms: u64,
    /// a hang is a violation (properties that state termination) rather than inconclusive
    pub hang_is_violation: bool,
    /// a worker death (abort / kill) while running a case is a violation (default) or only counted
    pub crash_is_violation: bool,
    /// run cases on this many threads (0 = all)
    pub threads: usize,
    /// byte-level sub-check: the first `raw_prefix` choices are selectors, everything after them is
    /// one byte string (`Src::tail_bytes`); tells the libFuzzer bridge how to map its input
    pub raw_prefix: Option<usize>,
}

impl Sub {
    pub fn gen(name: &'static str, f: CaseFn, choices: usize, quick: u64, thorough: u64) -> Sub {
        Sub {
            name,
            kind: Kind::Gen(f, choices),
            quick,
            thorough,
            isolated: false,
            timeout_ms: 10_000,
            hang_is_violation: false,
            crash_is_violation: true,
            threads: 0,
            raw_prefix: None,
        }
    }
    pub fn exhaustive(name: &'static str, f: ExhaustiveFn) -> Sub {
        Sub {
            name,
            kind: Kind::Exhaustive(f),
            quick: 0,
            thorough: 0,
            isolated: false,
            timeout_ms: 0,
            hang_is_violation: false,
            crash_is_violation: true,
            threads: 1,
            raw_prefix: None,
        }
    }
    pub fn isolated(mut self, timeout_ms: u64, hang_is_violation: bool) -> Sub {
        self.isolated = true;
        self.timeout_ms = timeout_ms;
        self.hang_is_violation = hang_is_violation;
        self
    }
    /// worker deaths are counted (class `worker_died`) instead of reported (for properties that
    /// leave crashes to another property)
    pub fn crashes_counted_only(mut self) -> Sub {
        self.crash_is_violation = false;
        self
    }
    pub fn threads(mut self, n: usize) -> Sub {
        self.threads = n;
        self
    }
    pub fn raw(mut self, prefix: usize) -> Sub {
        self.raw_prefix = Some(prefix);
        self
    }
}

pub struct Prop {
    pub id: &'static str,
    pub level: &'static str,
    pub rule: &'static str,
    pub assumptions: Vec<&'static str>,
    pub subs: Vec<Sub>,
    /// classes that must be observed at least once (else exit 2: generator broken)
    pub required: Vec<&'static str>,
    /// classes only required in the thorough tier
    pub required_thorough: Vec<&'static str>,
}

// AGGREGATION
// ================================================================================================

#[derive(Default)]
pub struct Agg {
    pub evaluations: u64,
    pub cases: u64,
    pub nontrivial: HashSet<u64>,
    pub classes: BTreeMap<String, u64>,
    pub samples: Vec<Value>,
    pub known: BTreeMap<String, (String, u64)>,
    pub failures: Vec<Failure>,
    pub hangs_inconclusive: u64,
    pub exhaustive_spaces: Vec<Value>,
}

pub struct Failure {
    pub sub: String,
    pub key: String,
    pub msg: String,
    pub choices: Vec<u64>,
    pub desc: Option<Value>,
    pub extra: Option<Value>,
}

impl Agg {
    fn merge(&mut self, other: Agg) {
        self.evaluations += other.evaluations;
        self.cases += other.cases;
        self.nontrivial.extend(other.nontrivial);
        for (k, v) in other.classes {
            *self.classes.entry(k).or_default() += v;
        }
        for s in other.samples {
            if self.samples.len() < 24 {
                self.samples.push(s);
            }
        }
        for (k, (w, n)) in other.known {
            let e = self.known.entry(k).or_insert((w, 0));
            e.1 += n;
        }
        self.failures.extend(other.failures);
        self.hangs_inconclusive += other.hangs_inconclusive;
        self.exhaustive_spaces.extend(other.exhaustive_spaces);
    }

    fn absorb(&mut self, rec: Rec, default_fp: u64, sub: &str, max_samples: usize) {
        self.cases += 1;
        self.evaluations += rec.weight.max(1);
        let fp = rec.fp.unwrap_or(default_fp) ^ fnv_of(sub);
        if rec.nontrivial {
            self.nontrivial.insert(fp);
        }
        for c in &rec.classes {
            *self.classes.entry(c.clone()).or_default() += 1;
        }
        for (k, what) in rec.known_hits {
            let e = self.known.entry(k).or_insert((what, 0));
            e.1 += 1;
        }
        if let Some(d) = rec.desc {
            if self.samples.len() < max_samples && (rec.nontrivial || self.samples.len() < 2) {
                self.samples.push(json!({"sub": sub, "nontrivial": rec.nontrivial, "case": d}));
            }
        }
    }
}

/// Handle given to exhaustive sub-checks.
pub struct Ex<'a> {
    pub agg: &'a mut Agg,
    pub sub: &'static str,
    pub tier: Tier,
    pub known: &'a Known,
    pub prop: &'static str,
    pub strict: bool,
    count: u64,
}
impl Ex<'_> {
    /// record one enumerated case
    #[inline]
    pub fn case(&mut self, fp: u64, nontrivial: bool) {
        self.count += 1;
        self.agg.cases += 1;
        self.agg.evaluations += 1;
        if nontrivial {
            self.agg.nontrivial.insert(fp ^ fnv_of(self.sub));
        }
    }
    /// record many cases without distinct fingerprints (only the count)
    pub fn bulk(&mut self, n: u64) {
        self.count += n;
        self.agg.cases += n;
        self.agg.evaluations += n;
    }
    pub fn class(&mut self, c: &str, n: u64) {
        *self.agg.classes.entry(c.to_string()).or_default() += n;
    }
    pub fn sample(&mut self, v: Value) {
        if self.agg.samples.len() < 24 {
            self.agg.samples.push(json!({"sub": self.sub, "nontrivial": true, "case": v}));
        }
    }
    pub fn space(&mut self, v: Value) {
        self.agg.exhaustive_spaces.push(json!({"sub": self.sub, "space": v}));
    }
    pub fn fail(&mut self, key: &str, msg: String, case: Value) {
        if !self.strict {
            if let Some(what) = self.known.lookup(self.prop, key) {
                let e = self.agg.known.entry(key.to_string()).or_insert((what, 0));
                e.1 += 1;
                return;
            }
        }
        // keep only the first failure per key
        if self.agg.failures.iter().any(|f| f.key == key && f.sub == self.sub) {
            return;
        }
        self.agg.failures.push(Failure {
            sub: self.sub.to_string(),
            key: key.to_string(),
            msg,
            choices: vec![],
            desc: Some(case),
            extra: None,
        });
    }
}

// KNOWN FINDINGS
// ================================================================================================

#[derive(Default, Clone)]
pub struct Known {
    /// (property, key) -> what, for status == "known"
    entries: Vec<(String, String, String)>,
}
impl Known {
    pub fn load(path: &str) -> Known {
        let mut k = Known::default();
        let Ok(text) = std::fs::read_to_string(path) else { return k };
        let Ok(v) = serde_json::from_str::<Value>(&text) else {
            eprintln!("warning: {path} is not valid JSON; ignoring");
            return k;
        };
        if let Some(arr) = v.get("findings").and_then(|x| x.as_array()) {
            for e in arr {
                if e.get("status").and_then(|s| s.as_str()) == Some("known") {
                    k.entries.push((
                        e["property"].as_str().unwrap_or("").to_string(),
                        e["key"].as_str().unwrap_or("").to_string(),
                        e["what"].as_str().unwrap_or("").to_string(),
                    ));
                }
            }
        }
        k
    }
    /// A key matches an entry exactly, or by prefix when the entry's key ends with '*'.
    pub fn lookup(&self, prop: &str, key: &str) -> Option<String> {
        for (p, k, w) in &self.entries {
            if p != prop {
                continue;
            }
            if k == key || (k.ends_with('*') && key.starts_with(&k[..k.len() - 1])) {
                return Some(w.clone());
            }
        }
        None
    }
}

// DRIVER
// ================================================================================================

#[derive(Clone, Copy, PartialEq, Eq, Debug)]
pub enum Tier {
    Quick,
    Thorough,
}
impl Tier {
    pub fn name(self) -> &'static str {
        match self {
            Tier::Quick => "quick",
            Tier::Thorough => "thorough",
        }
    }
}

pub struct Opts {
    pub prop: String,
    pub tier: Tier,
    pub seed: u64,
    pub replay: Option<String>,
    pub worker_sub: Option<String>,
    pub verif_dir: String,
    pub threads: usize,
    pub only_sub: Option<String>,
    pub scale: f64,
    /// print the generated sub-checks of every property served by this binary (JSON) and exit
    pub list: bool,
    /// write `count` generated cases of --prop/--sub as libFuzzer corpus files into this directory
    pub emit_corpus: Option<String>,
    pub count: usize,
}

pub fn parse_args() -> Opts {
    let args: Vec<String> = std::env::args().collect();
    let mut o = Opts {
        prop: String::new(),
        tier: match std::env::var("VERIF_TIER").as_deref() {
            Ok("thorough") => Tier::Thorough,
            _ => Tier::Quick,
        },
        seed: std::env::var("VERIF_SEED").ok().and_then(|s| s.trim().parse::<i128>().ok()).map(|v| v as u64).unwrap_or(0),
        replay: None,
        worker_sub: None,
        verif_dir: std::env::var("VERIF_DIR").unwrap_or_else(|_| "/verif".into()),
        threads: std::env::var("VERIF_THREADS").ok().and_then(|s| s.parse().ok()).unwrap_or_else(|| {
            std::thread::available_parallelism().map(|n| n.get()).unwrap_or(4).min(16)
        }),
        only_sub: None,
        scale: std::env::var("VERIF_SCALE").ok().and_then(|s| s.parse().ok()).unwrap_or(1.0),
        list: false,
        emit_corpus: None,
        count: 64,
    };
    let mut i = 1;
    while i < args.len() {
        match args[i].as_str() {
            "--prop" => {
                o.prop = args[i + 1].clone();
                i += 1;
            },
            "--tier" => {
                o.tier = if args[i + 1] == "thorough" { Tier::Thorough } else { Tier::Quick };
                i += 1;
            },
            "--seed" => {
                o.seed = args[i + 1].parse::<i128>().map(|v| v as u64).unwrap_or(0);
                i += 1;
            },
            "--replay" => {
                o.replay = Some(args[i + 1].clone());
                i += 1;
            },
            "--worker" => {
                o.worker_sub = Some(args[i + 1].clone());
                i += 1;
            },
            "--sub" => {
                o.only_sub = Some(args[i + 1].clone());
                i += 1;
            },
            "--list" => o.list = true,
            "--emit-corpus" => {
                o.emit_corpus = Some(args[i + 1].clone());
                i += 1;
            },
            "--count" => {
                o.count = args[i + 1].parse().unwrap_or(64);
                i += 1;
            },
            other => {
                eprintln!("unknown argument {other}");
                std::process::exit(2);
            },
        }
        i += 1;
    }
    o
}

fn derive_seed(seed: u64, prop: &str, sub: &str, shard: u64) -> [u8; 32] {
    let mut out = [0u8; 32];
    for (i, chunk) in out.chunks_mut(8).enumerate() {
        let mut h = Fnv::new();
        h.write_u64(seed);
        h.write(prop.as_bytes());
        h.write(sub.as_bytes());
        h.write_u64(shard);
        h.write_u64(i as u64);
        chunk.copy_from_slice(&h.finish().to_le_bytes());
    }
    out
}

/// Runs one case in-process: decode, run under catch_unwind, apply the known-findings filter.
pub fn run_case_inproc(f: CaseFn, choices: &[u64], want_desc: bool, strict: bool) -> (Rec, u64, CaseResult) {
    let mut src = Src::new(choices);
    let mut rec = Rec { want_desc, strict, ..Default::default() };
    let res = match catch(|| f(&mut src, &mut rec)) {
        Ok(r) => r,
        Err(p) => Err(Fail::new(format!("harness-{}", p.key()), format!("uncaught panic at {}: {}", p.location, p.message))),
    };
    let fp = src.fingerprint();
    (rec, fp, res)
}

struct ShardOut {
    agg: Agg,
}

#[allow(clippy::too_many_arguments)]
fn run_shard(
    prop: &'static str,
    sub: &Sub,
    f: CaseFn,
    nchoices: usize,
    cases: u64,
    seed: [u8; 32],
    known: &Known,
    stop: &AtomicBool,
) -> ShardOut {
    let mut agg = Agg::default();
    if cases == 0 {
        return ShardOut { agg };
    }
    let config = Config {
        cases: cases as u32,
        failure_persistence: None,
        max_shrink_iters: if sub.isolated { 300 } else { 4000 },
        max_shrink_time: 0,
        max_global_rejects: 1 << 20,
        verbose: 0,
        ..Config::default()
    };
    let rng = TestRng::from_seed(RngAlgorithm::ChaCha, &seed);
    let mut runner = TestRunner::new_with_rng(config, rng);
    let strategy = proptest::collection::vec(proptest::num::u64::ANY, nchoices..=nchoices);

    let state = RefCell::new((&mut agg, false /* failed */, None::<Fail>));
    let mut wk = if sub.isolated { Some(worker::WorkerHandle::spawn(prop, sub.name)) } else { None };
    let wk_cell = RefCell::new(&mut wk);
    let hang_viol = sub.hang_is_violation;
    let timeout = Duration::from_millis(sub.timeout_ms);

    let result = runner.run(&strategy, |choices: Vec<u64>| {
        let mut st = state.borrow_mut();
        let failed_already = st.1;
        if !failed_already && stop.load(Ordering::Relaxed) {
            // another shard already failed: finish quickly
            return Ok(());
        }
        let want_desc = !failed_already && st.0.samples.len() < 3;
        let (rec, fp, res) = if sub.isolated {
            let mut w = wk_cell.borrow_mut();
            let out = if failed_already {
                let t = (timeout / 25).max(Duration::from_millis(200));
                worker::run_case_isolated_ext(w.as_mut().unwrap(), prop, sub.name, &choices, false, t, true, true)
            } else {
                worker::run_case_isolated(w.as_mut().unwrap(), prop, sub.name, &choices, want_desc, timeout, hang_viol)
            };
            match out {
                worker::IsoOutcome::Done(rec, fp, res) => (rec, fp, res),
                worker::IsoOutcome::InconclusiveHang => {
                    if !failed_already {
                        st.0.hangs_inconclusive += 1;
                    }
                    return Ok(());
                },
            }
        } else {
            run_case_inproc(f, &choices, want_desc, false)
        };
        let mut rec = rec;
        let res = match res {
            Err(fail) if sub.isolated && !sub.crash_is_violation && fail.key.starts_with("abort:") => {
                rec.class("worker_died");
                Ok(())
            },
            // while shrinking a non-hang failure, a (short-budget) timeout is merely a slow case,
            // not a smaller reproduction of the original failure
            Err(fail) if failed_already && fail.key == "hang" && st.2.as_ref().map(|f| f.key != "hang").unwrap_or(false) => Ok(()),
            Err(fail) => match known.lookup(prop, &fail.key) {
                Some(what) => {
                    rec.known_hits.push((fail.key.clone(), what));
                    Ok(())
                },
                None => Err(fail),
            },
            ok => ok,
        };
        match res {
            Ok(()) => {
                if !failed_already {
                    st.0.absorb(rec, fp, sub.name, 3);
                }
                Ok(())
            },
            Err(fail) => {
                if !failed_already {
                    st.0.cases += 1;
                    st.0.evaluations += 1;
                    st.1 = true;
                    stop.store(true, Ordering::Relaxed);
                }
                st.2 = Some(fail.clone());
                Err(TestCaseError::fail(fail.key))
            },
        }
    });
    drop(wk_cell);
    if let Some(w) = wk.as_mut() {
        w.kill();
    }
    let (_, _, last_fail) = state.into_inner();
    if let Err(e) = result {
        match e {
            TestError::Fail(_reason, choices) => {
                // re-run the minimal case once to get its description and exact failure
                let (desc, fail) = if sub.isolated {
                    let mut w = worker::WorkerHandle::spawn(prop, sub.name);
                    let out = worker::run_case_isolated(&mut w, prop, sub.name, &choices, true, timeout, hang_viol);
                    w.kill();
                    match out {
                        worker::IsoOutcome::Done(rec, _, Err(f)) => (rec.desc, f),
                        _ => (None, last_fail.unwrap_or_else(|| Fail::new("unknown", "failure did not reproduce on re-run"))),
                    }
                } else {
                    let (rec, _, res) = run_case_inproc(f, &choices, true, false);
                    match res {
                        Err(fl) => (rec.desc, fl),
                        Ok(()) => (rec.desc, last_fail.unwrap_or_else(|| Fail::new("unknown", "failure did not reproduce on re-run"))),
                    }
                };
                agg.failures.push(Failure {
                    sub: sub.name.to_string(),
                    key: fail.key,
                    msg: fail.msg,
                    choices,
                    desc,
                    extra: None,
                });
            },
            TestError::Abort(reason) => {
                agg.failures.push(Failure {
                    sub: sub.name.to_string(),
                    key: "harness-abort".into(),
                    msg: format!("proptest aborted: {reason}"),
                    choices: vec![],
                    desc: None,
                    extra: None,
                });
            },
        }
    }
    ShardOut { agg }
}

pub fn strategy_smoke() {
    // keeps the Strategy/ValueTree imports honest (used by worker tests)
    let mut r = TestRunner::deterministic();
    let _ = proptest::num::u64::ANY.new_tree(&mut r).map(|t| t.current());
}

/// Entry point of every check binary.
pub fn main_with(props: Vec<Prop>) -> ! {
    install_panic_hook();
    let opts = parse_args();
    // generators may scale sizes with the tier; workers inherit the variable
    std::env::set_var("VERIF_TIER", opts.tier.name());
    if opts.list {
        let mut out = vec![];
        for p in &props {
            for s in &p.subs {
                if let Kind::Gen(_, n) = &s.kind {
                    out.push(json!({"property": p.id, "sub": s.name, "choices": n, "raw_prefix": s.raw_prefix, "isolated": s.isolated, "timeout_ms": s.timeout_ms}));
                }
            }
        }
        println!("{}", serde_json::to_string(&out).unwrap());
        std::process::exit(0);
    }
    let Some(prop) = props.into_iter().find(|p| p.id == opts.prop) else {
        eprintln!("property {} is not served by this binary", opts.prop);
        std::process::exit(2);
    };
    let prop: &'static Prop = Box::leak(Box::new(prop));

    let known = Known::load(&format!("{}/known_findings.json", opts.verif_dir));
    let _ = GLOBAL_KNOWN.set((prop.id.to_string(), known.clone()));
    if let Some(sub) = &opts.worker_sub {
        worker::worker_main(prop, sub);
    }
    let start = Instant::now();

    if let Some(dir) = &opts.emit_corpus {
        let sub = prop.subs.iter().find(|s| Some(s.name) == opts.only_sub.as_deref()).expect("--emit-corpus needs --sub");
        let Kind::Gen(_, n) = &sub.kind else { std::process::exit(2) };
        let _ = std::fs::create_dir_all(dir);
        for (i, ch) in gen_choice_vectors(opts.seed, prop.id, sub.name, opts.count, *n).iter().enumerate() {
            std::fs::write(format!("{dir}/gen-{i:04}"), choices_to_fuzz(sub.raw_prefix, ch)).expect("write corpus file");
        }
        std::process::exit(0);
    }

    if let Some(path) = &opts.replay {
        std::process::exit(replay(prop, path, &known));
    }

    // code under test may print to stdout (the bundled examples do); stdout carries the VIOLATION /
    // KNOWN-FINDING protocol, so it is parked on /dev/null while cases run and restored for the report
    let saved_stdout = unsafe {
        let _ = std::io::stdout().flush();
        let saved = libc::dup(1);
        let null = libc::open(c"/dev/null".as_ptr(), libc::O_WRONLY);
        if saved >= 0 && null >= 0 {
            libc::dup2(null, 1);
            libc::close(null);
        }
        saved
    };
    let restore_stdout = move || unsafe {
        let _ = std::io::stdout().flush();
        if saved_stdout >= 0 {
            libc::dup2(saved_stdout, 1);
        }
    };

    let mut total = Agg::default();
    // replay tier: every committed replay file of this property is re-run first
    let replay_dir = format!("{}/replays/{}", opts.verif_dir, prop.id);
    let mut replayed = 0u64;
    if let Ok(rd) = std::fs::read_dir(&replay_dir) {
        let mut files: Vec<_> = rd.filter_map(|e| e.ok()).map(|e| e.path()).filter(|p| p.extension().map(|e| e == "json").unwrap_or(false)).collect();
        files.sort();
        for p in files {
            replayed += 1;
            if let Some(f) = replay_one(prop, p.to_str().unwrap(), &known, false) {
                total.failures.push(f);
            }
        }
    }

    for sub in &prop.subs {
        if let Some(only) = &opts.only_sub {
            if only != sub.name {
                continue;
            }
        }
        let t0 = Instant::now();
        match &sub.kind {
            Kind::Gen(f, nchoices) => {
                let cases = ((if opts.tier == Tier::Quick { sub.quick } else { sub.thorough }) as f64 * opts.scale).ceil() as u64;
                let threads = if sub.threads == 0 { opts.threads } else { sub.threads.min(opts.threads) }.max(1);
                let threads = threads.min(cases.max(1) as usize);
                let per = cases / threads as u64;
                let extra = cases % threads as u64;
                let stop = AtomicBool::new(false);
                let merged = Mutex::new(Agg::default());
                std::thread::scope(|s| {
                    for t in 0..threads {
                        let n = per + if (t as u64) < extra { 1 } else { 0 };
                        let seed = derive_seed(opts.seed, prop.id, sub.name, t as u64);
                        let known = &known;
                        let stop = &stop;
                        let merged = &merged;
                        let f = *f;
                        let nchoices = *nchoices;
                        std::thread::Builder::new()
                            .stack_size(64 << 20)
                            .spawn_scoped(s, move || {
                                let out = run_shard(prop.id, sub, f, nchoices, n, seed, known, stop);
                                merged.lock().unwrap().merge(out.agg);
                            })
                            .unwrap();
                    }
                });
                let mut m = merged.into_inner().unwrap();
                // one failure per sub-check is enough: keep the one with the shortest choices
                if m.failures.len() > 1 {
                    m.failures.sort_by_key(|f| f.choices.iter().filter(|c| **c != 0).count());
                    m.failures.truncate(1);
                }
                total.merge(m);
            },
            Kind::Exhaustive(f) => {
                let mut ex = Ex { agg: &mut total, sub: sub.name, tier: opts.tier, known: &known, prop: prop.id, strict: false, count: 0 };
                if let Err(p) = catch(|| f(&mut ex)) {
                    total.failures.push(Failure {
                        sub: sub.name.to_string(),
                        key: format!("harness-{}", p.key()),
                        msg: format!("uncaught panic at {}: {}", p.location, p.message),
                        choices: vec![],
                        desc: None,
                        extra: None,
                    });
                }
            },
        }
        eprintln!("[{}] sub {} done in {:.1}s (cases so far {})", prop.id, sub.name, t0.elapsed().as_secs_f64(), total.cases);
    }

    // report
    restore_stdout();
    let mut exit = 0;
    for (key, (what, n)) in &total.known {
        println!("KNOWN-FINDING: property={} {} [key={} hits={}]", prop.id, what, key, n);
    }
    let mut violation_paths = vec![];
    for f in &total.failures {
        let dir = format!("{}/replays/{}", opts.verif_dir, prop.id);
        let _ = std::fs::create_dir_all(&dir);
        let fp = fnv_of(&(f.sub.as_str(), f.key.as_str()));
        let path = format!("{dir}/{}-{:016x}.json", f.sub, fp);
        let body = json!({
            "property": prop.id, "sub": f.sub, "key": f.key, "message": f.msg,
            "choices": f.choices, "case": f.desc, "seed": opts.seed, "tier": opts.tier.name(),
        });
        let _ = std::fs::write(&path, serde_json::to_string_pretty(&body).unwrap());
        println!("VIOLATION property={} replay={}", prop.id, path);
        eprintln!("  sub={} key={} :: {}", f.sub, f.key, f.msg);
        violation_paths.push(path);
        exit = 1;
    }
    let mut missing = vec![];
    if opts.only_sub.is_none() {
        let mut req: Vec<&str> = prop.required.clone();
        if opts.tier == Tier::Thorough {
            req.extend(prop.required_thorough.iter());
        }
        for r in req {
            if let Some(class) = r.strip_prefix("max5%:") {
                // a class that must stay rare (e.g. prover_declined): more than 5% of the cases
                // means the generator is unsound or the tree is broken wholesale -> inconclusive
                let n = total.classes.get(class).copied().unwrap_or(0);
                if n * 20 > total.cases.max(1) {
                    missing.push(format!("{class} occurred in {n} of {} cases (> 5%)", total.cases));
                }
                continue;
            }
            if total.classes.get(r).copied().unwrap_or(0) == 0 {
                missing.push(r.to_string());
            }
        }
    }
    if exit == 0 && !missing.is_empty() {
        eprintln!("INCONCLUSIVE: required classes never generated: {missing:?}");
        exit = 2;
    }
    if exit == 0 && total.hangs_inconclusive > 0 {
        eprintln!("INCONCLUSIVE: {} case(s) timed out (not a violation for this property)", total.hangs_inconclusive);
        exit = 2;
    }

    if std::env::var("VERIF_CLASSES").is_ok() {
        for (k, v) in &total.classes {
            eprintln!("  class {k}: {v}");
        }
    }
    let wall = start.elapsed().as_secs_f64();
    let exhaustive = prop.subs.iter().all(|s| matches!(s.kind, Kind::Exhaustive(_)) && !s.name.starts_with("driver:"));
    let mut coverage = json!({
        "evaluations": total.evaluations,
        "cases": total.cases,
        "distinct_nontrivial": total.nontrivial.len(),
        "rule": prop.rule,
        "samples": total.samples,
        "classes": total.classes,
        "required_classes": prop.required,
        "missing_required_classes": missing,
        "known_finding_hits": total.known.iter().map(|(k, (_, n))| (k.clone(), json!(n))).collect::<serde_json::Map<_, _>>(),
        "replay_files_rerun": replayed,
        "inconclusive_timeouts": total.hangs_inconclusive,
        "sub_checks": prop.subs.iter().map(|s| s.name).collect::<Vec<_>>(),
        "violation_replays": violation_paths,
    });
    if let Ok(p) = std::env::var("VERIF_FUZZ_SUMMARY") {
        // coverage-guided stage of the thorough tier (tools/fuzz_stage.py), run just before this binary
        if let Some(v) = std::fs::read_to_string(&p).ok().and_then(|s| serde_json::from_str::<Value>(&s).ok()) {
            coverage["fuzz"] = v;
        }
    }
    if let Ok(list) = std::env::var("VERIF_MERGE") {
        // other stages of the same check (e.g. the serial/concurrent differential of the thread clause):
        // "<key>=<evidence file>,..." -> coverage[key] = that stage's coverage and verdict
        for item in list.split(',') {
            if let Some((k, p)) = item.split_once('=') {
                if let Some(v) = std::fs::read_to_string(p).ok().and_then(|s| serde_json::from_str::<Value>(&s).ok()) {
                    coverage[k] = json!({"coverage": v["coverage"], "violations": v["violations"], "exit_code": v["exit_code"], "wall_s": v["wall_s"]});
                }
            }
        }
    }
    if exhaustive || !total.exhaustive_spaces.is_empty() {
        coverage["exhaustive"] = json!(exhaustive);
        coverage["exhaustive_spaces"] = json!(total.exhaustive_spaces);
    }
    let evidence = json!({
        "property_id": prop.id,
        "tier": opts.tier.name(),
        "seed": opts.seed as i64,
        "level": prop.level,
        "coverage": coverage,
        "assumptions": prop.assumptions,
        "wall_s": wall,
        "violations": total.failures.len(),
        "exit_code": exit,
    });
    if opts.only_sub.is_none() {
        let _ = std::fs::create_dir_all(format!("{}/evidence", opts.verif_dir));
        let name = std::env::var("VERIF_EVIDENCE_NAME").unwrap_or_else(|_| prop.id.to_string());
        let path = format!("{}/evidence/{}.json", opts.verif_dir, name);
        std::fs::write(&path, serde_json::to_string_pretty(&evidence).unwrap()).expect("write evidence");
    }
    println!(
        "{} tier={} seed={} cases={} evaluations={} distinct_nontrivial={} known_hits={} violations={} wall={:.1}s exit={}",
        prop.id,
        opts.tier.name(),
        opts.seed,
        total.cases,
        total.evaluations,
        total.nontrivial.len(),
        total.known.values().map(|x| x.1).sum::<u64>(),
        total.failures.len(),
        wall,
        exit
    );
    let _ = std::io::stdout().flush();
    std::process::exit(exit);
}

fn replay_one(prop: &'static Prop, path: &str, known: &Known, strict: bool) -> Option<Failure> {
    let text = std::fs::read_to_string(path).ok()?;
    let v: Value = serde_json::from_str(&text).ok()?;
    let sub_name = v["sub"].as_str()?.to_string();
    let sub = prop.subs.iter().find(|s| s.name == sub_name)?;
    let choices: Vec<u64> = v["choices"].as_array().map(|a| a.iter().filter_map(|x| x.as_u64()).collect()).unwrap_or_default();
    match &sub.kind {
        Kind::Gen(f, _) => {
            let (desc, res) = if sub.isolated {
                let mut w = worker::WorkerHandle::spawn(prop.id, sub.name);
                let out = worker::run_case_isolated(&mut w, prop.id, sub.name, &choices, true, Duration::from_millis(sub.timeout_ms * 20), sub.hang_is_violation);
                w.kill();
                match out {
                    worker::IsoOutcome::Done(rec, _, res) => (rec.desc, res),
                    worker::IsoOutcome::InconclusiveHang => (None, Ok(())),
                }
            } else {
                let (rec, _, res) = run_case_inproc(*f, &choices, true, strict);
                (rec.desc, res)
            };
            match res {
                Ok(()) => None,
                Err(fail) => {
                    if !strict && known.lookup(prop.id, &fail.key).is_some() {
                        return None;
                    }
                    Some(Failure { sub: sub_name, key: fail.key, msg: fail.msg, choices, desc, extra: None })
                },
            }
        },
        Kind::Exhaustive(f) => {
            let mut agg = Agg::default();
            let mut ex = Ex { agg: &mut agg, sub: sub.name, tier: Tier::Quick, known, prop: prop.id, strict, count: 0 };
            let _ = catch(|| f(&mut ex));
            agg.failures.into_iter().next()
        },
    }
}

fn replay(prop: &'static Prop, path: &str, known: &Known) -> i32 {
    match replay_one(prop, path, known, true) {
        Some(f) => {
            println!("VIOLATION property={} replay={}", prop.id, path);
            eprintln!("  sub={} key={} :: {}", f.sub, f.key, f.msg);
            if let Some(d) = f.desc {
                eprintln!("  case: {d}");
            }
            1
        },
        None => {
            println!("{} replay {} passed", prop.id, path);
            0
        },
    }
}

/// Deterministic list of choice vectors drawn from the proptest strategy with the seed derived
/// from (seed, prop, sub): used by differential drivers that must regenerate the *same* cases in
/// several builds of one binary.
pub fn gen_choice_vectors(seed: u64, prop: &str, sub: &str, count: usize, len: usize) -> Vec<Vec<u64>> {
    let rng = TestRng::from_seed(RngAlgorithm::ChaCha, &derive_seed(seed, prop, sub, 0));
    let mut runner = TestRunner::new_with_rng(Config { failure_persistence: None, ..Config::default() }, rng);
    let strategy = proptest::collection::vec(proptest::num::u64::ANY, len..=len);
    (0..count).map(|_| strategy.new_tree(&mut runner).expect("tree").current()).collect()
}

/// helper for reading a whole stream
pub fn read_all(mut r: impl Read) -> Vec<u8> {
    let mut v = vec![];
    let _ = r.read_to_end(&mut v);
    v
}


// LIBFUZZER BRIDGE
// ================================================================================================
// A coverage-guided fuzzer can drive every generated sub-check: its input bytes are decoded into a
// choice vector, the sub-check (oracle included) runs in-process, and a failure that is not a
// recorded known finding makes the target abort so that libFuzzer saves the input. The saved
// input converts back into an ordinary replay file (`fuzz_to_choices`), which is what decides.

/// inverse of `Src::tail_bytes`
pub fn encode_tail_bytes(bytes: &[u8]) -> Vec<u64> {
    let drop = (8 - bytes.len() % 8) % 8;
    let mut out = vec![drop as u64];
    for ch in bytes.chunks(8) {
        let mut w = [0u8; 8];
        w[..ch.len()].copy_from_slice(ch);
        out.push(u64::from_le_bytes(w));
    }
    out
}

/// Maps fuzzer bytes to a choice vector. Structured sub-checks: 8 bytes (big-endian, so that the
/// first byte of a group decides `below(n)` for small n) per choice. Raw sub-checks: one byte per
/// selector choice, then the byte string.
pub fn fuzz_to_choices(raw_prefix: Option<usize>, data: &[u8]) -> Vec<u64> {
    match raw_prefix {
        None => data
            .chunks(8)
            .map(|ch| {
                let mut w = [0u8; 8];
                w[..ch.len()].copy_from_slice(ch);
                u64::from_be_bytes(w)
            })
            .collect(),
        Some(p) => {
            let p = p.min(data.len());
            let mut out: Vec<u64> = data[..p].iter().map(|b| (*b as u64) << 56 | 1 << 55).collect();
            out.extend(encode_tail_bytes(&data[p..]));
            out
        },
    }
}

/// inverse of `fuzz_to_choices` (used to seed a corpus from generated cases)
pub fn choices_to_fuzz(raw_prefix: Option<usize>, choices: &[u64]) -> Vec<u8> {
    match raw_prefix {
        None => choices.iter().flat_map(|c| c.to_be_bytes()).collect(),
        Some(p) => {
            let p = p.min(choices.len());
            let mut out: Vec<u8> = choices[..p].iter().map(|c| (c >> 56) as u8).collect();
            let mut s = Src::new(&choices[p..]);
            out.extend(s.tail_bytes());
            out
        },
    }
}

pub struct FuzzTarget {
    pub prop: &'static str,
    pub sub: &'static str,
    pub raw_prefix: Option<usize>,
    f: CaseFn,
    known: Known,
}

impl FuzzTarget {
    /// `target` = "<Cxx>/<sub-check name>"; known findings are read from $VERIF_DIR.
    pub fn find(props: Vec<Prop>, target: &str) -> FuzzTarget {
        let (pid, sname) = target.split_once('/').expect("target must be <Cxx>/<sub>");
        let prop = props.into_iter().find(|p| p.id == pid).unwrap_or_else(|| panic!("unknown property {pid}"));
        let sub = prop.subs.iter().find(|s| s.name == sname).unwrap_or_else(|| panic!("unknown sub-check {sname}"));
        let f = match &sub.kind {
            Kind::Gen(f, _) => *f,
            Kind::Exhaustive(_) => panic!("exhaustive sub-checks have no generated input"),
        };
        let dir = std::env::var("VERIF_DIR").unwrap_or_else(|_| "/verif".into());
        let known = Known::load(&format!("{dir}/known_findings.json"));
        let _ = GLOBAL_KNOWN.set((prop.id.to_string(), Known::load(&format!("{dir}/known_findings.json"))));
        FuzzTarget { prop: prop.id, sub: sub.name, raw_prefix: sub.raw_prefix, f, known }
    }
    /// Runs one fuzzer input; `Some(fail)` = a violation that is not a recorded known finding.
    pub fn run(&self, data: &[u8]) -> Option<Fail> {
        let choices = fuzz_to_choices(self.raw_prefix, data);
        let (_rec, _fp, res) = run_case_inproc(self.f, &choices, false, false);
        match res {
            Ok(()) => None,
            Err(fail) => match self.known.lookup(self.prop, &fail.key) {
                Some(_) => None,
                None => Some(fail),
            },
        }
    }
}
