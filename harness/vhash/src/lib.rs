//! Hasher specs: each supported (hasher, field) pair together with its reference model.

use sha3::Digest as _;
use vcore::Src;
use vfield::*;
use vref::rescue::Params;
use winter_crypto::hashers::{Blake3_192, Blake3_256, Rp62_248, Rp64_256, RpJive64_256, Sha3_256};
use winter_crypto::{ElementHasher, Hasher};
use winter_math::fields::{f128, f62, f64};
use winter_utils::{Deserializable, Serializable};

/// reference digest: raw bytes for the byte hashers, four canonical integers for Rescue
#[derive(Clone, Debug, PartialEq, Eq, Hash)]
pub enum RefD {
    Bytes(Vec<u8>),
    Elems(Vec<u128>),
}

#[derive(Clone, Copy, PartialEq, Eq, Debug)]
pub enum HKind {
    Blake256,
    Blake192,
    Sha3,
    Rp64,
    Jive64,
    Rp62,
}

pub trait HS: 'static {
    type S: Spec;
    type H: ElementHasher<BaseField = <Self::S as Spec>::B>;
    const NAME: &'static str;
    const KIND: HKind;
    fn to_ref(d: &<Self::H as Hasher>::Digest) -> RefD;
    fn from_ref(r: &RefD) -> <Self::H as Hasher>::Digest;
    fn params() -> Option<Params> {
        match Self::KIND {
            HKind::Rp64 => Some(vref::rescue::rp64_256()),
            HKind::Jive64 => Some(vref::rescue::rp_jive64_256()),
            HKind::Rp62 => Some(vref::rescue::rp62_248()),
            _ => None,
        }
    }
    fn digest_bytes() -> usize {
        match Self::KIND {
            HKind::Blake192 => 24,
            _ => 32,
        }
    }
    fn is_rescue() -> bool {
        matches!(Self::KIND, HKind::Rp64 | HKind::Jive64 | HKind::Rp62)
    }
}

fn prim(kind: HKind, data: &[u8]) -> Vec<u8> {
    match kind {
        HKind::Blake256 => blake3::hash(data).as_bytes().to_vec(),
        HKind::Blake192 => blake3::hash(data).as_bytes()[..24].to_vec(),
        HKind::Sha3 => sha3::Sha3_256::digest(data).to_vec(),
        _ => unreachable!(),
    }
}

macro_rules! byte_hs {
    ($name:ident, $H:ident, $S:ty, $B:ty, $kind:expr, $label:expr) => {
        pub struct $name;
        impl HS for $name {
            type S = $S;
            type H = $H<$B>;
            const NAME: &'static str = $label;
            const KIND: HKind = $kind;
            fn to_ref(d: &<Self::H as Hasher>::Digest) -> RefD {
                RefD::Bytes(d.to_bytes())
            }
            fn from_ref(r: &RefD) -> <Self::H as Hasher>::Digest {
                match r {
                    RefD::Bytes(b) => <<Self::H as Hasher>::Digest as Deserializable>::read_from_bytes(b).expect("digest bytes"),
                    _ => unreachable!(),
                }
            }
        }
    };
}
byte_hs!(B256F62, Blake3_256, F62, f62::BaseElement, HKind::Blake256, "Blake3_256<f62>");
byte_hs!(B256F64, Blake3_256, F64, f64::BaseElement, HKind::Blake256, "Blake3_256<f64>");
byte_hs!(B256F128, Blake3_256, F128, f128::BaseElement, HKind::Blake256, "Blake3_256<f128>");
byte_hs!(B192F62, Blake3_192, F62, f62::BaseElement, HKind::Blake192, "Blake3_192<f62>");
byte_hs!(B192F64, Blake3_192, F64, f64::BaseElement, HKind::Blake192, "Blake3_192<f64>");
byte_hs!(B192F128, Blake3_192, F128, f128::BaseElement, HKind::Blake192, "Blake3_192<f128>");
byte_hs!(S3F62, Sha3_256, F62, f62::BaseElement, HKind::Sha3, "Sha3_256<f62>");
byte_hs!(S3F64, Sha3_256, F64, f64::BaseElement, HKind::Sha3, "Sha3_256<f64>");
byte_hs!(S3F128, Sha3_256, F128, f128::BaseElement, HKind::Sha3, "Sha3_256<f128>");

macro_rules! rescue_hs {
    ($name:ident, $H:ty, $S:ty, $kind:expr, $label:expr) => {
        pub struct $name;
        impl HS for $name {
            type S = $S;
            type H = $H;
            const NAME: &'static str = $label;
            const KIND: HKind = $kind;
            fn to_ref(d: &<Self::H as Hasher>::Digest) -> RefD {
                RefD::Elems(d.as_elements().iter().map(|e| <$S>::to_int(e)).collect())
            }
            fn from_ref(r: &RefD) -> <Self::H as Hasher>::Digest {
                match r {
                    RefD::Elems(v) => {
                        let arr: [<$S as Spec>::B; 4] = core::array::from_fn(|i| <$S>::from_int(v[i]));
                        <<Self::H as Hasher>::Digest>::new(arr)
                    },
                    _ => unreachable!(),
                }
            }
        }
    };
}
rescue_hs!(RP64, Rp64_256, F64, HKind::Rp64, "Rp64_256");
rescue_hs!(JIVE, RpJive64_256, F64, HKind::Jive64, "RpJive64_256");
rescue_hs!(RP62, Rp62_248, F62, HKind::Rp62, "Rp62_248");

// REFERENCE FUNCTIONS
// ================================================================================================

fn bytes_of(r: &RefD) -> &[u8] {
    match r {
        RefD::Bytes(b) => b,
        _ => unreachable!(),
    }
}
fn elems_of(r: &RefD) -> &[u128] {
    match r {
        RefD::Elems(e) => e,
        _ => unreachable!(),
    }
}

pub fn ref_hash<X: HS>(data: &[u8]) -> RefD {
    match X::params() {
        None => RefD::Bytes(prim(X::KIND, data)),
        Some(p) => RefD::Elems(p.hash(data)),
    }
}
pub fn ref_merge<X: HS>(a: &RefD, b: &RefD) -> RefD {
    match X::params() {
        None => RefD::Bytes(prim(X::KIND, &[bytes_of(a), bytes_of(b)].concat())),
        Some(p) => RefD::Elems(p.merge(elems_of(a), elems_of(b))),
    }
}
pub fn ref_merge_many<X: HS>(ds: &[RefD]) -> RefD {
    match X::params() {
        None => {
            let mut all = vec![];
            for d in ds {
                all.extend_from_slice(bytes_of(d));
            }
            RefD::Bytes(prim(X::KIND, &all))
        },
        Some(p) => {
            let mut all = vec![];
            for d in ds {
                all.extend_from_slice(elems_of(d));
            }
            RefD::Elems(p.hash_elements(&all))
        },
    }
}
pub fn ref_merge_with_int<X: HS>(seed: &RefD, v: u64) -> RefD {
    match X::params() {
        None => {
            let mut all = bytes_of(seed).to_vec();
            all.extend_from_slice(&v.to_le_bytes());
            RefD::Bytes(prim(X::KIND, &all))
        },
        Some(p) => RefD::Elems(p.merge_with_int(elems_of(seed), v)),
    }
}
/// `base_values`: canonical values of the base-field coefficients of all elements, flattened
pub fn ref_hash_elements<X: HS>(base_values: &[u128]) -> RefD {
    match X::params() {
        None => {
            let nb = (<X::S as Spec>::BITS as usize).div_ceil(8).next_power_of_two();
            let mut all = Vec::with_capacity(base_values.len() * nb);
            for v in base_values {
                all.extend_from_slice(&v.to_le_bytes()[..nb]);
            }
            RefD::Bytes(prim(X::KIND, &all))
        },
        Some(p) => RefD::Elems(p.hash_elements(base_values)),
    }
}
/// model of `Digest::as_bytes()` (32 bytes): byte digests zero-padded, 64-bit Rescue digests as
/// four LE u64, the 62-bit digest bit-packed into 248 bits
pub fn ref_as_bytes<X: HS>(d: &RefD) -> [u8; 32] {
    let mut out = [0u8; 32];
    match (d, X::KIND) {
        (RefD::Bytes(b), _) => out[..b.len()].copy_from_slice(b),
        (RefD::Elems(e), HKind::Rp62) => {
            // 4 x 62 bits packed little-endian
            let mut acc = [0u64; 4];
            for (i, v) in e.iter().enumerate() {
                let bit = 62 * i;
                let (w, s) = (bit / 64, bit % 64);
                acc[w] |= (*v as u64) << s;
                if s > 2 && w + 1 < 4 {
                    acc[w + 1] |= (*v as u64) >> (64 - s);
                }
            }
            for (i, w) in acc.iter().enumerate() {
                out[i * 8..i * 8 + 8].copy_from_slice(&w.to_le_bytes());
            }
        },
        (RefD::Elems(e), _) => {
            for (i, v) in e.iter().enumerate() {
                out[i * 8..i * 8 + 8].copy_from_slice(&(*v as u64).to_le_bytes());
            }
        },
    }
    out
}

/// a generated digest value (arbitrary contents) for hasher X
pub fn gen_digest<X: HS>(s: &mut Src) -> RefD {
    if X::is_rescue() {
        RefD::Elems((0..4).map(|_| if s.chance(1, 4) { gen_int::<X::S>(s) } else { s.u128() % <X::S as Spec>::P }).collect())
    } else {
        let n = X::digest_bytes();
        match s.below(6) {
            0 => RefD::Bytes(vec![0; n]),
            1 => RefD::Bytes(vec![0xff; n]),
            _ => RefD::Bytes(s.bytes(n)),
        }
    }
}

pub fn show_d(d: &RefD) -> String {
    match d {
        RefD::Bytes(b) => b.iter().map(|x| format!("{x:02x}")).collect(),
        RefD::Elems(e) => format!("{e:?}"),
    }
}

/// dispatch over all twelve hasher specs
#[macro_export]
macro_rules! with_hasher {
    ($idx:expr, $X:ident, $body:expr) => {
        match $idx {
            0 => { type $X = $crate::B256F62; $body },
            1 => { type $X = $crate::B256F64; $body },
            2 => { type $X = $crate::B256F128; $body },
            3 => { type $X = $crate::B192F62; $body },
            4 => { type $X = $crate::B192F64; $body },
            5 => { type $X = $crate::B192F128; $body },
            6 => { type $X = $crate::S3F62; $body },
            7 => { type $X = $crate::S3F64; $body },
            8 => { type $X = $crate::S3F128; $body },
            9 => { type $X = $crate::RP64; $body },
            10 => { type $X = $crate::JIVE; $body },
            _ => { type $X = $crate::RP62; $body },
        }
    };
}
pub const NUM_HASHERS: u64 = 12;
