//! C02 — proofs of unsatisfied statements are rejected.

use std::sync::Arc;

use vcore::*;
use vfield::{Mix, Spec as FSpec};
use vgen::checker::check_trace;
use vgen::gen::GenCfg;
use vgen::prover::AuxFault;
use vgen::{GenProver, Spec};
use vhash::*;
use winter_air::proof::Proof;
use winter_math::FieldElement;

use crate::common::*;

pub fn prop() -> Prop {
    Prop {
        id: "C02",
        level: "fault_enumeration",
        rule: "fault cases = a satisfying GenAir instance over one of 12 (field, hasher) instances with generated options, plus one fault: (a) a single main-trace cell changed at a step of a chosen class (first row, interior, n-k-1, n-k, exempt rows, an asserted cell of each assertion kind) or an auxiliary cell changed while the auxiliary segment is built; (b) a whole row or a whole column replaced; (c) the verifier given other public inputs: an asserted value changed, or the tag (an element that feeds only the public-coin seed); (d) the verifier's AIR changed (a constraint coefficient). Oracle: for faults the independent checker classifies as unsatisfying (and for all of c, d) the release-profile prover pipeline either fails or yields a proof that verify rejects; acceptance is the only violation. Faults the checker classifies as still satisfying (exempt, unasserted cells) must verify (the two-directional part). Non-trivial = the fault is classified unsatisfying (or is a public-input / AIR perturbation); distinct = hash of (instance, spec, options, fault). Sub-check examples_wrong_inputs: every bundled example AIR (generated size, hasher, options) proves its true statement; the verifier given the example's documented WRONG public inputs (Example::verify_with_wrong_inputs) must reject the proof.",
        assumptions: vec![
            "soundness of the oracle: on a false statement the honest pipeline produces a non-polynomial quotient whose truncated composition columns disagree with the verifier's evaluation at the out-of-domain point except with probability <= degree/|F| <= 2^-40 for every supported field, independent of the number of queries",
            "auxiliary-cell faults are classified by the rule 'step <= n - k or asserted => unsatisfying' (the cell is the next-state of an enforced transition or asserted), because the protocol's random elements are not known to the harness at fault time",
            "main-cell faults are classified on the main segment only: the auxiliary segment is rebuilt consistently from the corrupted main trace by the prover",
        ],
        subs: vec![Sub::gen("faults", faults, 500, 20_000, 300_000), Sub::gen("examples_wrong_inputs", examples_wrong_inputs, 200, 400, 4_000)],
        required: vec!["fault:cell_first", "fault:cell_interior", "fault:cell_last_enforced", "fault:cell_first_exempt_row", "fault:cell_exempt", "fault:asserted_cell", "fault:aux_cell", "fault:row", "fault:column", "fault:pub_asserted_value", "fault:pub_tag", "fault:air_coefficient", "outcome:rejected", "outcome:verified_still_valid", "example_wrong_inputs_rejected", "ext:1", "ext:2", "ext:3", "field:f62", "field:f64", "field:f128"],
        required_thorough: vec![],
    }
}

fn faults(s: &mut Src, rec: &mut Rec) -> CaseResult {
    let idx = s.below(NUM_HASHERS);
    with_hasher!(idx, X, run::<X>(s, rec))
}

fn run<X: HS>(s: &mut Src, rec: &mut Rec) -> CaseResult
where
    X::H: Send + Sync,
{
    let mut cfg = GenCfg::small();
    cfg.max_log_n = if X::is_rescue() { 5 } else { 7 };
    cfg.max_width = 6;
    let max_lde = if X::is_rescue() { 1 << 8 } else { 1 << 11 };
    let mut case = gen_case::<X>(s, &cfg, max_lde, rec);
    let spec = case.spec.clone();
    let n = spec.trace_len;
    let k = spec.exemptions;
    let name = X::NAME;
    rec.class(&format!("field:{}", <X::S as FSpec>::NAME));
    rec.class(&format!("ext:{}", case.opt.ext));
    let kind = s.below(12);
    let kname = ["cell_first", "cell_interior", "cell_last_enforced", "cell_first_exempt_row", "cell_exempt", "asserted_cell", "aux_cell", "row", "column", "pub_asserted_value", "pub_tag", "air_coefficient"][kind as usize];
    let one = <<X::S as FSpec>::B as FieldElement>::ONE;
    let mut prover = GenProver::<X>::new(spec.clone(), case.options.clone());
    prover.aux_garbage_seed = if s.bool() { 0 } else { s.u64() | 1 };
    let mut verifier_spec: Arc<Spec> = spec.clone();
    #[allow(unused_assignments)]
    let mut what = String::new();
    let mut kname = kname;
    // Some(true) = unsatisfying, Some(false) = still satisfying, None = decided by the checker below
    let mut forced: Option<bool> = None;
    match kind {
        0..=4 => {
            let col = s.below(spec.main_width as u64) as usize;
            let step = match kind {
                0 => 0,
                1 => s.range(1, (n - k).max(2) as u64 - 1) as usize,
                2 => n - k - 1,
                3 => n - k,
                _ => {
                    if k < 2 {
                        kname = "cell_first_exempt_row";
                        n - k
                    } else {
                        s.range((n - k + 1) as u64, (n - 1) as u64) as usize
                    }
                },
            };
            case.main[col][step] += one;
            what = format!("main[{col}][{step}] += 1");
        },
        5 => {
            let a = s.pick(&spec.assertions).clone();
            let st = *s.pick(&a.steps(n));
            case.main[a.column][st] += one;
            what = format!("asserted cell main[{}][{st}] += 1 (kind {})", a.column, a.kind);
        },
        6 => {
            if spec.aux.is_empty() {
                kname = "cell_interior";
                let col = s.below(spec.main_width as u64) as usize;
                let step = s.range(1, (n - k).max(2) as u64 - 1) as usize;
                case.main[col][step] += one;
                what = format!("main[{col}][{step}] += 1");
            } else {
                let c = s.below(spec.aux.len() as u64) as usize;
                let st = match s.below(4) {
                    0 => 0,
                    1 => n - k,
                    2 => n - 1,
                    _ => s.below(n as u64) as usize,
                };
                prover.aux_fault = Some(AuxFault { column: c, step: st });
                let asserted = spec.aux_assertions.iter().any(|a| a.column == c && a.steps(n).contains(&st));
                forced = Some(st <= n - k || asserted);
                what = format!("aux[{c}][{st}] += 1");
            }
        },
        7 => {
            let r = s.below(n as u64) as usize;
            let mut mix = Mix(s.u64());
            for c in 0..spec.main_width {
                case.main[c][r] = <X::S as FSpec>::from_int(mix.int::<X::S>());
            }
            what = format!("row {r} replaced");
        },
        8 => {
            let c = s.below(spec.main_width as u64) as usize;
            let mut mix = Mix(s.u64());
            for r in 0..n {
                case.main[c][r] = <X::S as FSpec>::from_int(mix.int::<X::S>());
            }
            what = format!("column {c} replaced");
        },
        9 => {
            let mut sp = (*spec).clone();
            let i = s.below(sp.assertions.len() as u64) as usize;
            let j = s.below(sp.assertions[i].values.len() as u64) as usize;
            sp.assertions[i].values[j] = (sp.assertions[i].values[j] + 1 + s.below(1000) as u128) % <X::S as FSpec>::P;
            verifier_spec = Arc::new(sp);
            forced = Some(true);
            what = format!("verifier's public inputs: asserted value {j} of assertion {i} changed");
        },
        10 => {
            let mut sp = (*spec).clone();
            sp.tag = sp.tag.wrapping_add(1 + s.below(1 << 20));
            verifier_spec = Arc::new(sp);
            forced = Some(true);
            what = "verifier's public inputs: tag changed (feeds only the coin seed)".to_string();
        },
        _ => {
            let mut sp = (*spec).clone();
            let j = s.below(sp.constraints.len() as u64) as usize;
            let t = &mut sp.constraints[j].f[0];
            t.coef = (t.coef + 1 + s.below(1000) as u128) % <X::S as FSpec>::P;
            if t.coef == 0 {
                t.coef = 1;
            }
            verifier_spec = Arc::new(sp);
            forced = Some(true);
            what = format!("verifier's AIR: leading coefficient of constraint {j} changed");
        },
    }
    rec.class(&format!("fault:{kname}"));
    let unsat = match forced {
        Some(u) => u,
        None => !check_trace::<X::S, <X::S as FSpec>::B>(&spec, &case.main, None, 1).is_empty(),
    };
    if unsat {
        rec.nontrivial();
    }
    rec.set_fp(&(name, spec.fingerprint(), format!("{:?}", case.opt), &what));
    rec.describe(|| json!({"instance": name, "spec": spec.describe(), "options": case.opt.describe(), "fault": what, "classified_unsatisfying": unsat}));
    let ctx = format!("{name}; fault: {what}; spec {}; options {}", spec.describe(), case.opt.describe());
    let proof = match prove_with::<X>(&prover, case.main.clone()) {
        ProveOutcome::Proof(p) => *p,
        ProveOutcome::Error(_) => {
            rec.class("outcome:prover_error");
            return if unsat { Ok(()) } else { Err(Fail::new("prover-error-on-satisfying-trace", format!("prover failed on a trace the checker classifies as satisfying ({ctx})"))) };
        },
        ProveOutcome::Panic(pn) => {
            rec.class("outcome:prover_asserted");
            rec.class(&format!("prover_asserted:{}", pn.key().chars().take(70).collect::<String>()));
            return Ok(());
        },
    };
    let proof = match Proof::from_bytes(&proof.to_bytes()) {
        Ok(p) => p,
        Err(e) => return Err(Fail::new("proof-does-not-decode", format!("proof does not decode from its own bytes: {e} ({ctx})"))),
    };
    match verify_proof::<X>(proof, &verifier_spec, &case.options) {
        VerifyOutcome::Accept => {
            if unsat {
                Err(Fail::new(format!("unsatisfied-statement-verified:{kname}"), format!("the verifier ACCEPTED a proof of a statement that does not hold ({ctx})")))
            } else {
                rec.class("outcome:verified_still_valid");
                Ok(())
            }
        },
        VerifyOutcome::Reject(e) => {
            rec.class("outcome:rejected");
            rec.class(&format!("rejected_with:{}", err_name(&e)));
            if unsat {
                Ok(())
            } else {
                Err(Fail::new(format!("valid-statement-rejected:{}", err_name(&e)), format!("the verifier rejected a proof although the changed cell is exempt and unasserted, i.e. the statement still holds: {e} ({ctx})")))
            }
        },
        VerifyOutcome::Panic(pn) => Err(Fail::new(format!("verifier-{}", pn.key()), format!("verifier panicked at {}: {} ({ctx})", pn.location, pn.message))),
    }
}


// BUNDLED EXAMPLES: A TRUE PROOF DOES NOT VERIFY AGAINST OTHER PUBLIC INPUTS
// ================================================================================================

fn examples_wrong_inputs(s: &mut Src, rec: &mut Rec) -> CaseResult {
    let case = match crate::examples::gen_example(s, rec) {
        Ok(c) => c,
        Err(_) => {
            rec.class("prover_declined");
            return Ok(());
        },
    };
    let ctx = format!("example {} (size {}, trace length {}, hasher {}); options {}", case.name, case.size, case.trace_len, case.hasher, case.opt.describe());
    rec.set_fp(&(case.name, case.size, case.hasher, format!("{:?}", case.opt)));
    rec.describe(|| json!({"example": case.name, "size": case.size, "trace_len": case.trace_len, "hasher": case.hasher, "options": case.opt.describe()}));
    let proof = match catch(|| case.example.prove()) {
        Ok(p) => p,
        Err(_) => {
            rec.class("prover_declined");
            return Ok(());
        },
    };
    rec.nontrivial();
    match catch(|| case.example.verify_with_wrong_inputs(proof)) {
        Ok(Err(_)) => {
            rec.class("example_wrong_inputs_rejected");
            rec.class("outcome:rejected");
            Ok(())
        },
        Ok(Ok(())) => Err(Fail::new("example-wrong-inputs-accepted", format!("the verifier ACCEPTED the proof of a bundled example against different public inputs ({ctx})"))),
        Err(pn) => Err(Fail::new(format!("verifier-{}", pn.key()), format!("verifier panicked at {}: {} ({ctx})", pn.location, pn.message))),
    }
}
