//! C01 — honest proofs of satisfied AIR instances always verify.

use vcore::*;
use vfield::Spec as FSpec;
use vgen::checker::check_trace;
use vgen::gen::GenCfg;
use vgen::trace::build_aux;
use vhash::*;
use winter_air::proof::Proof;

use crate::common::*;

pub fn prop() -> Prop {
    Prop {
        id: "C01",
        level: "exploration",
        rule: "case = GenAir instance (width 1..12, occasionally 64..255; trace length 2^3..2^10; one next-state constraint per column of degree 1..5 with optional periodic factor; exemptions 1..bound with mass on k = degree and k = bound; optional auxiliary segment with running product / sum columns; single / periodic / sequence assertions read off the generated satisfying trace, in a generated listing order; sub-check long_sequences forces a sequence assertion of 64..512 values on traces of 2^7..2^12 rows with its first step spread over the whole stride, so that first_step x constraint-evaluation blowup exceeds the number of values) x one of 12 (field, hasher) instances x generated valid ProofOptions (queries 1..255, blowup min..128, grinding 0..10, extension None/Quadratic/Cubic, folding 2/4/8/16, remainder degree 2^r-1 <= 255 without FRI degree truncation, 3x3 batching methods, partitions 1..16 x hash rate). Sub-check bundled_examples: the repository's own example AIRs (fib2, fib8, mulfib2, mulfib8, fib_small over f64 with all five hashers, vdf, vdf with exemptions, rescue hash chain, rescue RAPs with an auxiliary segment, merkle path; lamport aggregate in the thorough tier) with generated sizes and generated valid options. Oracle: verify(Proof::from_bytes(proof.to_bytes())) = Ok with OptionSet([options]). Non-trivial = the independent checker confirms the trace satisfies the spec and a proof was produced; distinct = hash of (spec, options, instance).",
        assumptions: vec![
            "only configurations the code documents as acceptable are generated: blowup >= the documented minimum for the declared degrees, queries < LDE size, FRI parameters without degree truncation (counted as excluded)",
            "a prover panic on a generated instance is recorded as prover_declined (C01 speaks about the proof the prover produces); more than 5% of such cases makes the check inconclusive (exit 2)",
            "rescue_raps and merkle examples draw their witness (seeds, leaf index) from the crate's own RNG: the structure of the case is a function of VERIF_SEED, those witness values are not",
            "release profile: Trace::validate is not run by the prover (its agreement with the independent checker is C29's subject)",
        ],
        subs: vec![Sub::gen("genair", genair, 400, 6_000, 150_000), Sub::gen("many_queries", many_queries, 400, 32, 600), Sub::gen("long_sequences", long_sequences, 400, 600, 12_000), Sub::gen("bundled_examples", bundled_examples, 200, 700, 8_000)],
        required: vec![
            "field:f62", "field:f64", "field:f128", "ext:1", "ext:2", "ext:3", "folding:2", "folding:4", "folding:8", "folding:16", "remainder:0", "remainder:255",
            "unique_queries_255", "queries_1", "partitions_gt_1", "aux_segment", "periodic_column", "sequence_ge_64", "sequence_first_nonzero", "sequence_offset_ge_values", "example:fib2", "example:fib8", "example:mulfib2", "example:mulfib8", "example:fib_small", "example:vdf", "example:vdf_exempt", "example:rescue", "example:rescue_raps", "example:merkle",
            "composition_columns_gt_1", "exemptions_gt_1", "exemptions_eq_degree", "hasher:Rp62_248", "hasher:Rp64_256", "hasher:RpJive64_256", "hasher:Sha3_256<f128>", "hasher:Blake3_192<f62>", "max5%:prover_declined",
        ],
        required_thorough: vec!["wide_trace"],
    }
}

fn genair(s: &mut Src, rec: &mut Rec) -> CaseResult {
    let idx = s.below(NUM_HASHERS);
    with_hasher!(idx, X, run::<X>(s, rec, 0))
}
fn many_queries(s: &mut Src, rec: &mut Rec) -> CaseResult {
    let idx = s.pick_copy(&[0u64, 1, 2, 4, 8]);
    with_hasher!(idx, X, run::<X>(s, rec, 1))
}
fn long_sequences(s: &mut Src, rec: &mut Rec) -> CaseResult {
    // non-Rescue instances (cost): three fields x Blake3 / Sha3
    let idx = s.pick_copy(&[0u64, 1, 2, 3, 4, 5, 6, 7, 8]);
    with_hasher!(idx, X, run::<X>(s, rec, 2))
}

pub fn unique_queries(p: &Proof) -> usize {
    p.num_unique_queries as usize
}

fn run<X: HS>(s: &mut Src, rec: &mut Rec, mode: u8) -> CaseResult
where
    X::H: Send + Sync,
{
    let thorough = std::env::var("VERIF_TIER").map(|t| t == "thorough").unwrap_or(false);
    let forced_255 = mode == 1;
    let mut cfg = GenCfg::small();
    cfg.wide = thorough;
    cfg.max_log_n = if X::is_rescue() { 7 } else if thorough { 11 } else { 9 };
    cfg.max_width = 12;
    let mut max_lde = if X::is_rescue() { 1 << 11 } else { 1 << 13 };
    if forced_255 {
        cfg.min_log_n = 9;
        cfg.max_log_n = 10;
        cfg.max_width = 3;
        cfg.allow_aux = false;
        max_lde = 1 << 17;
    }
    if mode == 2 {
        // sequence assertions of 64..512 values with the first step anywhere in the stride
        cfg.min_log_n = if X::is_rescue() { 8 } else { 10 };
        cfg.max_log_n = if X::is_rescue() { 9 } else { 12 };
        cfg.max_width = 3;
        cfg.allow_aux = s.chance(1, 4);
        cfg.max_assertions = 3;
        cfg.long_sequence = true;
        max_lde = 1 << 15;
    }
    let mut case = gen_case::<X>(s, &cfg, max_lde, rec);
    if forced_255 {
        // 255 queries over an LDE domain large enough that all positions are likely distinct
        case.opt.queries = 255;
        case.opt.blowup = (max_lde / case.spec.trace_len).min(128).max(case.opt.blowup);
        if vgen::options::fri_truncates(case.spec.trace_len, case.opt.blowup, case.opt.folding, case.opt.rem_degree) {
            case.opt.folding = 2;
            case.opt.rem_degree = 0;
        }
        case.opt.grinding = 0;
        case.options = case.opt.build();
    }
    let spec = case.spec.clone();
    let name = X::NAME;
    rec.class(&format!("hasher:{name}"));
    rec.class(&format!("field:{}", <X::S as FSpec>::NAME));
    rec.class(&format!("ext:{}", case.opt.ext));
    rec.class(&format!("folding:{}", case.opt.folding));
    rec.class(&format!("remainder:{}", case.opt.rem_degree));
    rec.class(&format!("batching:{}{}", case.opt.batch_c, case.opt.batch_d));
    rec.class_if(case.opt.queries == 1, "queries_1");
    rec.class_if(case.opt.partitions > 1, "partitions_gt_1");
    rec.class_if(case.opt.grinding > 0, "grinding");
    rec.set_fp(&(name, spec.fingerprint(), format!("{:?}", case.opt)));
    rec.describe(|| json!({"instance": name, "spec": spec.describe(), "options": case.opt.describe()}));

    // the generator asserts its own output with the independent checker
    let viol = if spec.aux.is_empty() {
        check_trace::<X::S, <X::S as FSpec>::B>(&spec, &case.main, None, 1)
    } else {
        let rands: Vec<<X::S as FSpec>::B> = (0..spec.num_rands).map(|i| <X::S as FSpec>::from_int(12345 + i as u128)).collect();
        let aux = build_aux::<X::S, <X::S as FSpec>::B>(&spec, &case.main, &rands, 0);
        check_trace::<X::S, <X::S as FSpec>::B>(&spec, &case.main, Some((&aux, &rands)), 1)
    };
    if !viol.is_empty() {
        return Err(Fail::new("harness-generated-trace-unsatisfying", format!("generator produced a trace the independent checker rejects: {:?}", viol[0])));
    }
    let ctx = format!("{name}; spec {}; options {}", spec.describe(), case.opt.describe());
    let proof = match prove::<X>(&spec, &case.options, case.main.clone()) {
        ProveOutcome::Proof(p) => *p,
        ProveOutcome::Error(e) => return Err(Fail::new("prover-error", format!("prover returned an error on a satisfying instance: {e} ({ctx})"))),
        ProveOutcome::Panic(pn) => {
            // recorded, not a C01 violation by itself (C01 speaks about the proof the prover produces);
            // bounded by the 5% rule
            rec.class("prover_declined");
            rec.class(&format!("prover_declined:{}", pn.key().chars().take(90).collect::<String>()));
            return Ok(());
        },
    };
    rec.nontrivial();
    rec.class_if(unique_queries(&proof) == 255, "unique_queries_255");
    let bytes = proof.to_bytes();
    let decoded = match catch(|| Proof::from_bytes(&bytes)) {
        Ok(Ok(p)) => p,
        Ok(Err(e)) => return Err(Fail::new("honest-proof-does-not-decode", format!("Proof::from_bytes(proof.to_bytes()) failed: {e} ({ctx})"))),
        Err(pn) => return Err(Fail::new(format!("decode-{}", pn.key()), format!("Proof::from_bytes panicked on an honest proof: {} ({ctx})", pn.message))),
    };
    // number of composition columns is visible in the constraint queries; use the AIR's own notion
    {
        use winter_air::Air;
        let air = vgen::GenAir::<X::S>::new(proof.trace_info().clone(), vgen::PubInputs::new(spec.clone()), case.options.clone());
        rec.class_if(air.context().num_constraint_composition_columns() > 1, "composition_columns_gt_1");
    }
    match verify_proof::<X>(decoded, &spec, &case.options) {
        VerifyOutcome::Accept => Ok(()),
        VerifyOutcome::Reject(e) => Err(Fail::new(format!("honest-proof-rejected:{}", err_name(&e)), format!("verifier rejected an honest proof: {e} ({ctx}; unique queries {})", unique_queries(&proof)))),
        VerifyOutcome::Panic(pn) => Err(Fail::new(format!("verifier-{}", pn.key()), format!("verifier panicked on an honest proof at {}: {} ({ctx}; unique queries {})", pn.location, pn.message, unique_queries(&proof)))),
    }
}


// BUNDLED EXAMPLES
// ================================================================================================

fn bundled_examples(s: &mut Src, rec: &mut Rec) -> CaseResult {
    let case = match crate::examples::gen_example(s, rec) {
        Ok(c) => c,
        Err(pn) => return Err(Fail::new(format!("example-constructor-{}", pn.key()), format!("constructing a bundled example panicked: {} at {}", pn.message, pn.location))),
    };
    let ctx = format!("example {} (size {}, trace length {}, hasher {}); options {}", case.name, case.size, case.trace_len, case.hasher, case.opt.describe());
    rec.set_fp(&(case.name, case.size, case.hasher, format!("{:?}", case.opt)));
    rec.describe(|| json!({"example": case.name, "size": case.size, "trace_len": case.trace_len, "hasher": case.hasher, "options": case.opt.describe()}));
    rec.class(&format!("ext:{}", case.opt.ext));
    rec.class(&format!("folding:{}", case.opt.folding));
    rec.class_if(case.opt.partitions > 1, "partitions_gt_1");
    let proof = match catch(|| case.example.prove()) {
        Ok(p) => p,
        Err(pn) => return Err(Fail::new(format!("example-prover-{}", pn.key()), format!("the prover of a bundled example panicked on its own satisfying trace: {} at {} ({ctx})", pn.message, pn.location))),
    };
    rec.nontrivial();
    let bytes = proof.to_bytes();
    let decoded = match catch(|| Proof::from_bytes(&bytes)) {
        Ok(Ok(p)) => p,
        Ok(Err(e)) => return Err(Fail::new("honest-proof-does-not-decode", format!("Proof::from_bytes(proof.to_bytes()) failed: {e} ({ctx})"))),
        Err(pn) => return Err(Fail::new(format!("decode-{}", pn.key()), format!("Proof::from_bytes panicked on an honest proof: {} ({ctx})", pn.message))),
    };
    match catch(|| case.example.verify(decoded)) {
        Ok(Ok(())) => Ok(()),
        Ok(Err(e)) => Err(Fail::new(format!("honest-proof-rejected:{}", err_name(&e)), format!("verifier rejected the honest proof of a bundled example: {e} ({ctx}; unique queries {})", unique_queries(&proof)))),
        Err(pn) => Err(Fail::new(format!("verifier-{}", pn.key()), format!("verifier panicked on the honest proof of a bundled example at {}: {} ({ctx})", pn.location, pn.message))),
    }
}
