//! Parsed contents of a proof, as the property C04 lists them: context, unique-query count,
//! commitment digests, query values and openings, out-of-domain frame, FRI layers and remainder,
//! proof-of-work nonce. Deliberately ignores what the property does not list (FRI num_partitions
//! byte, non-minimal size encodings, trailing bytes).

use vfield::Spec as FSpec;
use vgen::*;
use vhash::*;
use winter_air::proof::Proof;
use winter_air::{Air, ProofOptions};
use winter_crypto::MerkleTree;
use winter_math::FieldElement;
use winter_utils::Serializable;

fn elems<E: FieldElement>(v: &[E]) -> Vec<u8> {
    let mut out = vec![];
    for e in v {
        e.write_into(&mut out);
    }
    out
}

pub fn parsed_view<X: HS, E: FieldElement<BaseField = <X::S as FSpec>::B>>(proof: &Proof, spec: &SpecRef, options: &ProofOptions) -> Result<Vec<(&'static str, Vec<u8>)>, String> {
    let air = GenAir::<X::S>::new(proof.trace_info().clone(), PubInputs::new(spec.clone()), options.clone());
    let lde = air.lde_domain_size();
    let nq = proof.num_unique_queries as usize;
    let mut out: Vec<(&'static str, Vec<u8>)> = vec![];
    out.push(("context", proof.context.to_bytes()));
    out.push(("num_unique_queries", vec![proof.num_unique_queries]));
    let fri_options = options.to_fri_options();
    let (tr, cr, fr) = proof.commitments.clone().parse::<X::H>(air.trace_info().num_segments(), fri_options.num_fri_layers(lde)).map_err(|e| format!("{e}"))?;
    let mut c = vec![];
    for d in tr.iter().chain(std::iter::once(&cr)).chain(fr.iter()) {
        d.write_into(&mut c);
    }
    out.push(("commitments", c));
    let mw = air.trace_info().main_trace_width();
    let (p, t) = proof.trace_queries[0].clone().parse::<<X::S as FSpec>::B, X::H, MerkleTree<X::H>>(lde, nq, mw).map_err(|e| format!("{e}"))?;
    out.push(("main_query_values", t.rows().flat_map(|r| elems(r)).collect()));
    out.push(("main_query_opening", p.to_bytes()));
    if air.trace_info().is_multi_segment() {
        let aw = air.trace_info().aux_segment_width();
        let (p, t) = proof.trace_queries.get(1).ok_or("missing aux queries")?.clone().parse::<E, X::H, MerkleTree<X::H>>(lde, nq, aw).map_err(|e| format!("{e}"))?;
        out.push(("aux_query_values", t.rows().flat_map(|r| elems(r)).collect()));
        out.push(("aux_query_opening", p.to_bytes()));
    }
    let cols = air.context().num_constraint_composition_columns();
    let (p, t) = proof.constraint_queries.clone().parse::<E, X::H, MerkleTree<X::H>>(lde, nq, cols).map_err(|e| format!("{e}"))?;
    out.push(("constraint_query_values", t.rows().flat_map(|r| elems(r)).collect()));
    out.push(("constraint_query_opening", p.to_bytes()));
    let (ot, oq) = proof.ood_frame.clone().parse::<E>(mw, air.trace_info().aux_segment_width(), cols).map_err(|e| format!("{e}"))?;
    out.push(("ood_trace", [elems(ot.current_row()), elems(ot.next_row())].concat()));
    out.push(("ood_quotients", [elems(oq.current_row()), elems(oq.next_row())].concat()));
    let rem: Vec<E> = proof.fri_proof.parse_remainder().map_err(|e| format!("{e}"))?;
    out.push(("fri_remainder", elems(&rem)));
    let (lq, lp) = proof.fri_proof.clone().parse_layers::<E, X::H, MerkleTree<X::H>>(lde, fri_options.folding_factor()).map_err(|e| format!("{e}"))?;
    let mut lv = vec![];
    for (i, q) in lq.iter().enumerate() {
        lv.extend_from_slice(&(i as u32).to_le_bytes());
        lv.extend_from_slice(&(q.len() as u32).to_le_bytes());
        lv.extend(elems(q));
    }
    out.push(("fri_layer_values", lv));
    let mut lo = vec![];
    for p in &lp {
        let b = p.to_bytes();
        lo.extend_from_slice(&(b.len() as u32).to_le_bytes());
        lo.extend(b);
    }
    out.push(("fri_layer_openings", lo));
    out.push(("pow_nonce", proof.pow_nonce.to_le_bytes().to_vec()));
    Ok(out)
}
