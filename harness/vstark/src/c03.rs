//! C03 — data revealed after the challenges must match earlier commitments.

use vcore::*;
use vfield::{gen_elem, Spec as FSpec, C, Q};
use vgen::gen::GenCfg;
use vhash::*;
use winter_air::proof::Proof;
use winter_fri::folding::fold_positions;
use winter_fri::FriProof;
use winter_math::{FieldElement, StarkField};
use winter_utils::{Deserializable, Serializable};

use crate::common::*;
use crate::replay::*;

pub fn prop() -> Prop {
    Prop {
        id: "C03",
        level: "fault_enumeration",
        rule: "fault cases = an honest GenAir proof (biased to <= 16 queries, folding >= 4, large remainders, >= 2 composition columns, >= 2 auxiliary columns, main width > extension degree so that every attack is feasible) whose public-coin transcript is replayed to learn the challenges, then one substitution of data revealed after the query positions are fixed: (1) remainder R' = R + c*prod(x - x_i) over the distinct final-layer query points; (2) a queried FRI coset + c*(x - alpha)*prod(x - x_q); (3) a queried main-trace row + Delta with sum cc_i*Delta_i = 0 (linear solve over the base field); (4) a queried auxiliary row, (5) a queried constraint-composition row with the same invariant; (6) a main-trace value changed and compensated in the constraint row; (7) non-adaptive replacement of one value at each site. Oracle: verify rejects every substituted proof and accepts the unmodified one. Non-trivial = the attack is feasible, its invariant (which makes it pass every non-commitment check) was verified by the harness, and the bytes differ; distinct = hash of (instance, spec, options, attack).",
        assumptions: vec![
            "the replay uses only public API (Context::to_elements, Air coefficient methods, DefaultRandomCoin, Commitments::parse, OodFrame::parse) and is self-validated: replayed positions must open the honest trace and constraint commitments, otherwise the case counts as replay_mismatch and makes the run inconclusive",
            "DEEP composition depends on a queried row only through sum cc_i * value_i (both the z and the z*g terms use the same coefficient), so a row change with sum cc_i * Delta_i = 0 leaves every DEEP evaluation unchanged",
        ],
        subs: vec![Sub::gen("substitutions", substitutions, 500, 16_000, 300_000)],
        required: vec!["attack:remainder", "attack:fri_coset", "attack:main_row", "attack:aux_row", "attack:constraint_row", "attack:joint", "attack:random_value", "ext:1", "ext:2", "ext:3", "max5%:replay_mismatch"],
        required_thorough: vec![],
    }
}

fn substitutions(s: &mut Src, rec: &mut Rec) -> CaseResult {
    let idx = s.below(NUM_HASHERS);
    with_hasher!(idx, X, run_x::<X>(s, rec))
}

fn run_x<X: HS>(s: &mut Src, rec: &mut Rec) -> CaseResult
where
    X::H: Send + Sync,
{
    let mut cfg = GenCfg::small();
    cfg.max_log_n = if X::is_rescue() { 5 } else { 7 };
    cfg.min_log_n = 4;
    cfg.max_width = 6;
    let mut case = gen_case::<X>(s, &cfg, if X::is_rescue() { 1 << 8 } else { 1 << 11 }, rec);
    // bias towards feasibility of the adaptive attacks
    case.opt.queries = s.range(1, 12) as usize;
    if s.bool() {
        let n = case.spec.trace_len;
        for (f, r) in [(4usize, 15usize), (4, 7), (8, 7), (16, 15), (2, 7)] {
            if !vgen::options::fri_truncates(n, case.opt.blowup, f, r) {
                case.opt.folding = f;
                case.opt.rem_degree = r;
                break;
            }
        }
    }
    case.opt.grinding = s.below(5) as u32;
    case.options = case.opt.build();
    rec.class(&format!("ext:{}", case.opt.ext));
    match case.opt.ext {
        1 => run::<X, <X::S as FSpec>::B>(s, rec, case),
        2 => run::<X, Q<<X::S as FSpec>::B>>(s, rec, case),
        _ => run::<X, C<<X::S as FSpec>::B>>(s, rec, case),
    }
}

fn poly_from_roots<E: FieldElement>(roots: &[E]) -> Vec<E> {
    let mut p = vec![E::ONE];
    for r in roots {
        let mut q = vec![E::ZERO; p.len() + 1];
        for (i, c) in p.iter().enumerate() {
            q[i + 1] += *c;
            q[i] -= *c * *r;
        }
        p = q;
    }
    p
}
fn eval<E: FieldElement>(p: &[E], x: E) -> E {
    p.iter().rev().fold(E::ZERO, |acc, c| acc * x + *c)
}
fn nonzero<S: FSpec, E: FieldElement<BaseField = S::B>>(s: &mut Src) -> E {
    loop {
        let (e, _) = gen_elem::<S, E>(s);
        if e != E::ZERO {
            return e;
        }
        if s.exhausted() {
            return E::ONE;
        }
    }
}

struct FriLayout {
    layers: Vec<std::ops::Range<usize>>,
    remainder: std::ops::Range<usize>,
}
fn fri_layout(bytes: &[u8]) -> Option<FriLayout> {
    let mut pos = 1usize;
    let n = *bytes.first()? as usize;
    let mut layers = vec![];
    for _ in 0..n {
        let lv = u32::from_le_bytes(bytes.get(pos..pos + 4)?.try_into().ok()?) as usize;
        pos += 4;
        layers.push(pos..pos + lv);
        pos += lv;
        let lp = u32::from_le_bytes(bytes.get(pos..pos + 4)?.try_into().ok()?) as usize;
        pos += 4 + lp;
    }
    let lr = u16::from_le_bytes(bytes.get(pos..pos + 2)?.try_into().ok()?) as usize;
    pos += 2;
    let remainder = pos..pos + lr;
    if pos + lr + 1 != bytes.len() {
        return None;
    }
    Some(FriLayout { layers, remainder })
}
fn to_elems<E: FieldElement>(b: &[u8]) -> Vec<E> {
    b.chunks(E::ELEMENT_BYTES).map(|c| E::read_from_bytes(c).expect("element")).collect()
}
fn to_bytes<E: FieldElement>(v: &[E]) -> Vec<u8> {
    let mut out = vec![];
    for e in v {
        e.write_into(&mut out);
    }
    out
}

/// non-zero Delta in B^k with sum Delta_k * c_k = 0 over E (k = extension degree + 1 coefficients)
fn null_vector<B: StarkField, E: FieldElement<BaseField = B>>(cs: &[E]) -> Option<Vec<B>> {
    let d = E::EXTENSION_DEGREE;
    let k = cs.len();
    if k != d + 1 {
        return None;
    }
    // matrix d x (d + 1) over B
    let mut m: Vec<Vec<B>> = (0..d).map(|r| cs.iter().map(|c| E::slice_as_base_elements(std::slice::from_ref(c))[r]).collect()).collect();
    // Gaussian elimination, tracking pivot columns
    let mut pivots: Vec<usize> = vec![];
    let mut row = 0;
    for col in 0..k {
        if row >= d {
            break;
        }
        let Some(p) = (row..d).find(|r| m[*r][col] != B::ZERO) else { continue };
        m.swap(row, p);
        let inv = m[row][col].inv();
        for c in 0..k {
            m[row][c] *= inv;
        }
        for r in 0..d {
            if r != row && m[r][col] != B::ZERO {
                let f = m[r][col];
                for c in 0..k {
                    let t = m[row][c] * f;
                    m[r][c] -= t;
                }
            }
        }
        pivots.push(col);
        row += 1;
    }
    // free column
    let free = (0..k).find(|c| !pivots.contains(c))?;
    let mut x = vec![B::ZERO; k];
    x[free] = B::ONE;
    for (r, pc) in pivots.iter().enumerate() {
        x[*pc] = -m[r][free];
    }
    Some(x)
}

fn run<X: HS, E: FieldElement<BaseField = <X::S as FSpec>::B>>(s: &mut Src, rec: &mut Rec, case: Case<X>) -> CaseResult
where
    X::H: Send + Sync,
{
    type B<X> = <<X as HS>::S as FSpec>::B;
    let name = X::NAME;
    let spec = case.spec.clone();
    let ctx = format!("{name}; spec {}; options {}", spec.describe(), case.opt.describe());
    let proof = match prove::<X>(&spec, &case.options, case.main.clone()) {
        ProveOutcome::Proof(p) => *p,
        _ => {
            rec.class("prover_declined");
            return Ok(());
        },
    };
    let proof = Proof::from_bytes(&proof.to_bytes()).map_err(|e| Fail::new("proof-does-not-decode", format!("{e} ({ctx})")))?;
    if !matches!(verify_proof::<X>(proof.clone(), &spec, &case.options), VerifyOutcome::Accept) {
        // C01's subject
        rec.class("honest_proof_not_accepted");
        return Ok(());
    }
    let t: Transcript<X, E> = match replay::<X, E>(&proof, &spec, &case.options) {
        Ok(t) => t,
        Err(e) => {
            rec.class("replay_mismatch");
            rec.class(&format!("replay_mismatch:{}", e.chars().take(60).collect::<String>()));
            return Ok(());
        },
    };
    if t.row_hash_model_mismatch {
        // counted under the same 5% rule: the attacks still run (they can only be rejected if the
        // transcript were wrong), the run ends inconclusive unless one of them is accepted
        rec.class("replay_mismatch");
        rec.class("replay_mismatch:row hashing model does not reproduce the honest leaves");
    }
    let kind = s.below(10);
    let mut mutated = proof.clone();
    let what: String;
    let attack: &str;
    let nq = t.positions.len();
    let q = s.below(nq as u64) as usize;
    match kind {
        0 | 1 => {
            // FRI-level adaptive attacks
            let fri_bytes = proof.fri_proof.to_bytes();
            let Some(lay) = fri_layout(&fri_bytes) else {
                return Err(Fail::new("harness-fri-layout", format!("cannot map FRI proof bytes ({ctx})")));
            };
            let n = t.lde_domain_size;
            let folding = case.opt.folding;
            let layers = lay.layers.len();
            let eb = E::ELEMENT_BYTES;
            let g0 = <B<X> as StarkField>::get_root_of_unity(n.ilog2());
            let offset = <B<X> as StarkField>::GENERATOR;
            let mut layer_positions: Vec<Vec<usize>> = vec![t.positions.clone()];
            let mut dom = n;
            for _ in 0..layers {
                let f = fold_positions(layer_positions.last().unwrap(), dom, folding);
                layer_positions.push(f);
                dom /= folding;
            }
            let mut bytes = fri_bytes.clone();
            if kind == 0 {
                attack = "remainder";
                let mut finals = layer_positions[layers].clone();
                finals.sort();
                finals.dedup();
                let rem: Vec<E> = to_elems::<E>(&fri_bytes[lay.remainder.clone()]);
                if finals.len() > rem.len().saturating_sub(1) {
                    rec.class("infeasible:remainder");
                    return Ok(());
                }
                let gf = g0.exp_vartime(((n / dom) as u64).into());
                let xs: Vec<E> = finals.iter().map(|i| E::from(offset * gf.exp_vartime((*i as u64).into()))).collect();
                let v = poly_from_roots(&xs);
                let c = nonzero::<X::S, E>(s);
                let old_low: Vec<E> = rem.iter().rev().copied().collect();
                let mut low = old_low.clone();
                for (i, vc) in v.iter().enumerate() {
                    low[i] += c * *vc;
                }
                for x in &xs {
                    if eval(&low, *x) != eval(&old_low, *x) {
                        return Err(Fail::new("harness-adaptive-invariant", "remainder substitution changes a queried value".to_string()));
                    }
                }
                let new_rem: Vec<E> = low.iter().rev().copied().collect();
                bytes[lay.remainder.clone()].copy_from_slice(&to_bytes(&new_rem));
                what = format!("FRI remainder replaced by another polynomial agreeing with it at all {} queried final-layer points", xs.len());
            } else {
                attack = "fri_coset";
                if layers == 0 || folding < 4 {
                    rec.class("infeasible:fri_coset");
                    return Ok(());
                }
                let l = s.below(layers as u64) as usize;
                let dom_l = n / folding.pow(l as u32);
                let row_length = dom_l / folding;
                let folded = &layer_positions[l + 1];
                let row = s.below(folded.len() as u64) as usize;
                let fp = folded[row];
                let mut queried: Vec<usize> = layer_positions[l].iter().filter(|p| *p % row_length == fp).map(|p| p / row_length).collect();
                queried.sort();
                queried.dedup();
                if queried.len() + 1 > folding - 1 {
                    rec.class("infeasible:fri_coset");
                    return Ok(());
                }
                let alpha = t.fri_alphas[l];
                let g_l = g0.exp_vartime(((n / dom_l) as u64).into());
                let xe = g_l.exp_vartime((fp as u64).into()) * offset;
                let xj: Vec<E> = (0..folding).map(|j| E::from(xe * g0.exp_vartime(((n / folding * j) as u64).into()))).collect();
                let mut roots = vec![alpha];
                roots.extend(queried.iter().map(|j| xj[*j]));
                let delta = poly_from_roots(&roots);
                let c = nonzero::<X::S, E>(s);
                let start = lay.layers[l].start + row * folding * eb;
                let vals: Vec<E> = to_elems::<E>(&fri_bytes[start..start + folding * eb]);
                let new_vals: Vec<E> = (0..folding).map(|j| vals[j] + c * eval(&delta, xj[j])).collect();
                for j in &queried {
                    if new_vals[*j] != vals[*j] {
                        return Err(Fail::new("harness-adaptive-invariant", "coset substitution changes a queried entry".to_string()));
                    }
                }
                bytes[start..start + folding * eb].copy_from_slice(&to_bytes(&new_vals));
                what = format!("FRI layer {l} coset at folded position {fp} replaced (same queried entries, same folded value)");
            }
            mutated.fri_proof = FriProof::read_from_bytes(&bytes).map_err(|e| Fail::new("harness-fri-reencode", format!("{e}")))?;
        },
        2 | 5 | 6 => {
            let (bp, mut rows) = parse_queries::<X, B<X>>(&proof.trace_queries[0], &t, t.main_width).map_err(|e| Fail::new("harness-parse", e))?;
            if kind == 2 {
                attack = "main_row";
                let d = E::EXTENSION_DEGREE;
                if t.main_width < d + 1 {
                    rec.class("infeasible:main_row");
                    return Ok(());
                }
                // pick d + 1 columns
                let mut cols: Vec<usize> = (0..t.main_width).collect();
                for i in (1..cols.len()).rev() {
                    let j = s.below(i as u64 + 1) as usize;
                    cols.swap(i, j);
                }
                cols.truncate(d + 1);
                let cs: Vec<E> = cols.iter().map(|c| t.deep_trace[*c]).collect();
                let Some(delta) = null_vector::<B<X>, E>(&cs) else {
                    rec.class("infeasible:main_row");
                    return Ok(());
                };
                let scale = nonzero::<X::S, B<X>>(s);
                let mut lin = E::ZERO;
                for (k, c) in cols.iter().enumerate() {
                    let dl = delta[k] * scale;
                    rows[q][*c] += dl;
                    lin += t.deep_trace[*c] * E::from(dl);
                }
                if lin != E::ZERO {
                    return Err(Fail::new("harness-adaptive-invariant", "main row substitution changes the DEEP linear form".to_string()));
                }
                what = format!("queried main-trace row #{q} (position {}) replaced by a row with the same DEEP contribution (columns {cols:?})", t.positions[q]);
                mutated.trace_queries[0] = build_queries::<X, B<X>>(bp, rows);
            } else if kind == 5 {
                attack = "joint";
                let c = s.below(t.main_width as u64) as usize;
                let dl = nonzero::<X::S, B<X>>(s);
                rows[q][c] += dl;
                let (cp, mut crows) = parse_queries::<X, E>(&proof.constraint_queries, &t, t.num_composition_columns).map_err(|e| Fail::new("harness-parse", e))?;
                let j = s.below(t.num_composition_columns as u64) as usize;
                if t.deep_constraints[j] == E::ZERO {
                    rec.class("infeasible:joint");
                    return Ok(());
                }
                let comp = -(t.deep_trace[c] * E::from(dl)) / t.deep_constraints[j];
                crows[q][j] += comp;
                if t.deep_trace[c] * E::from(dl) + t.deep_constraints[j] * comp != E::ZERO {
                    return Err(Fail::new("harness-adaptive-invariant", "joint substitution changes the DEEP linear form".to_string()));
                }
                what = format!("main-trace value (row #{q}, column {c}) changed and compensated in constraint column {j} of the same query");
                mutated.trace_queries[0] = build_queries::<X, B<X>>(bp, rows);
                mutated.constraint_queries = build_queries::<X, E>(cp, crows);
            } else {
                attack = "random_value";
                let c = s.below(t.main_width as u64) as usize;
                rows[q][c] += nonzero::<X::S, B<X>>(s);
                what = format!("main-trace value (row #{q}, column {c}) replaced");
                mutated.trace_queries[0] = build_queries::<X, B<X>>(bp, rows);
            }
        },
        3 | 8 => {
            if t.aux_width == 0 {
                rec.class("infeasible:aux_row");
                return Ok(());
            }
            let (bp, mut rows) = parse_queries::<X, E>(&proof.trace_queries[1], &t, t.aux_width).map_err(|e| Fail::new("harness-parse", e))?;
            if kind == 3 {
                attack = "aux_row";
                if t.aux_width < 2 {
                    rec.class("infeasible:aux_row");
                    return Ok(());
                }
                let (a, b) = (0usize, 1 + s.below(t.aux_width as u64 - 1) as usize);
                let (ca, cb) = (t.deep_trace[t.main_width + a], t.deep_trace[t.main_width + b]);
                let k = nonzero::<X::S, E>(s);
                rows[q][a] += k * cb;
                rows[q][b] -= k * ca;
                if ca * (k * cb) - cb * (k * ca) != E::ZERO {
                    return Err(Fail::new("harness-adaptive-invariant", "aux substitution changes the DEEP linear form".to_string()));
                }
                what = format!("queried auxiliary row #{q} replaced by a row with the same DEEP contribution (columns {a}, {b})");
            } else {
                attack = "random_value";
                let c = s.below(t.aux_width as u64) as usize;
                rows[q][c] += nonzero::<X::S, E>(s);
                what = format!("auxiliary value (row #{q}, column {c}) replaced");
            }
            mutated.trace_queries[1] = build_queries::<X, E>(bp, rows);
        },
        4 | 7 => {
            let (cp, mut rows) = parse_queries::<X, E>(&proof.constraint_queries, &t, t.num_composition_columns).map_err(|e| Fail::new("harness-parse", e))?;
            if kind == 4 {
                attack = "constraint_row";
                if t.num_composition_columns < 2 {
                    rec.class("infeasible:constraint_row");
                    return Ok(());
                }
                let (a, b) = (0usize, 1 + s.below(t.num_composition_columns as u64 - 1) as usize);
                let (ca, cb) = (t.deep_constraints[a], t.deep_constraints[b]);
                let k = nonzero::<X::S, E>(s);
                rows[q][a] += k * cb;
                rows[q][b] -= k * ca;
                what = format!("queried constraint-composition row #{q} replaced by a row with the same DEEP contribution (columns {a}, {b})");
            } else {
                attack = "random_value";
                let c = s.below(t.num_composition_columns as u64) as usize;
                rows[q][c] += nonzero::<X::S, E>(s);
                what = format!("constraint-composition value (row #{q}, column {c}) replaced");
            }
            mutated.constraint_queries = build_queries::<X, E>(cp, rows);
        },
        _ => {
            attack = "random_value";
            let fri_bytes = proof.fri_proof.to_bytes();
            let Some(lay) = fri_layout(&fri_bytes) else {
                return Err(Fail::new("harness-fri-layout", format!("cannot map FRI proof bytes ({ctx})")));
            };
            let mut bytes = fri_bytes.clone();
            let eb = E::ELEMENT_BYTES;
            let r = if lay.layers.is_empty() || s.bool() { lay.remainder.clone() } else { s.pick(&lay.layers).clone() };
            let k = s.below((r.len() / eb) as u64) as usize;
            let old: E = E::read_from_bytes(&fri_bytes[r.start + k * eb..r.start + (k + 1) * eb]).unwrap();
            let new = old + nonzero::<X::S, E>(s);
            bytes[r.start + k * eb..r.start + (k + 1) * eb].copy_from_slice(&new.to_bytes());
            mutated.fri_proof = FriProof::read_from_bytes(&bytes).map_err(|e| Fail::new("harness-fri-reencode", format!("{e}")))?;
            what = "one FRI value (layer or remainder) replaced".to_string();
        },
    }
    if mutated.to_bytes() == proof.to_bytes() {
        rec.class("substitution_identical");
        return Ok(());
    }
    rec.class(&format!("attack:{attack}"));
    rec.nontrivial();
    rec.set_fp(&(name, spec.fingerprint(), format!("{:?}", case.opt), &what));
    rec.describe(|| json!({"instance": name, "spec": spec.describe(), "options": case.opt.describe(), "attack": attack, "what": what, "unique_queries": nq}));
    // through bytes, as a real proof would travel
    let mutated = Proof::from_bytes(&mutated.to_bytes()).map_err(|e| Fail::new("harness-mutant-does-not-decode", format!("{e}")))?;
    match verify_proof::<X>(mutated, &spec, &case.options) {
        VerifyOutcome::Reject(e) => {
            rec.class(&format!("rejected_with:{}", format!("{e:?}").chars().take(60).collect::<String>()));
            Ok(())
        },
        VerifyOutcome::Accept => Err(Fail::new(format!("substituted-data-accepted:{attack}"), format!("the verifier ACCEPTED a proof in which data revealed after the challenges differs from what was committed: {what} ({ctx})"))),
        VerifyOutcome::Panic(pn) => Err(Fail::new(format!("verifier-{}", pn.key()), format!("verifier panicked at {}: {} ({what}; {ctx})", pn.location, pn.message))),
    }
}
