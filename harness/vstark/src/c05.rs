//! C05 — deserializing and verifying untrusted proofs never crashes or hangs.

use vcore::*;
use vfield::{Spec as FSpec, C, Q};
use vgen::gen::GenCfg;
use vhash::*;
use winter_air::proof::{Commitments, Context, OodFrame, Proof, Queries};
use winter_air::{ProofOptions, TraceInfo};
use winter_crypto::{BatchMerkleProof, Hasher, MerkleTree};
use winter_fri::FriProof;
use winter_math::FieldElement;
use winter_utils::{Deserializable, Serializable, SliceReader};
use winter_verifier::AcceptableOptions;

use crate::c04::digest_len;
use crate::common::*;
use crate::mutate::*;

pub fn prop() -> Prop {
    Prop {
        id: "C05",
        level: "fault_enumeration",
        rule: "fault cases, each run in a worker subprocess (RLIMIT_AS 4 GiB, per-case watchdog): (i) structure-aware mutants of honest GenAir proofs (value dictionaries on every encoded length, count, exponent, option byte, enum tag, frame-size byte, partition exponent, Merkle depth, modulus length, layer count; truncations, duplications, splices), 30 per proof, each decoded with Proof::from_bytes and verified under three acceptable-option modes (the original option set, minimum conjectured security 0, minimum proven security 0); (ii) the same style of mutation on components decoded alone: TraceInfo, ProofOptions, Context, Commitments (+parse), Queries (+parse), OodFrame (+parse), FriProof (+parse_layers / parse_remainder), BatchMerkleProof, digests, base and extension field elements; (iii) unstructured random byte strings. Oracle: every call returns Ok or Err; a panic, an abort (e.g. failed allocation), a killed worker or a hang (20x the per-case budget, run alone) is a violation keyed by its panic site. Non-trivial = the mutant decodes at least as far as the proof options; distinct = hash of (instance, spec, options, mutation list). Sub-check crafted_headers: the decoded honest proof gets one or two header-level edits that keep it well-formed (another valid ProofOptions value in one field, incl. query counts at and above the LDE domain size; another trace length / width / metadata; another commitment digest; another OOD trace value; other unique-query count or nonce) and its quotient OOD row is then RECOMPUTED from the AIR's public API so that the out-of-domain consistency check passes under the edited transcript: verification continues into FRI commitments, proof of work, query positions and Merkle openings with a header the prover never used; no outcome other than accept / error is allowed.",
        assumptions: vec![
            "release profile: 'panic' means a panic or abort of an optimized build without debug assertions",
            "GenAir::new is total: when the trace info / options carried by a hostile proof disagree with the public inputs it builds a degenerate but consistent AIR, so a remaining panic is attributable to library code",
            "panic sites that are part of the library's public contract (no error channel) are listed in known_findings.json by exact key; they are counted and the search continues past them",
        ],
        subs: vec![
            Sub::gen("proof_mutants", proof_mutants, 900, 6_000, 100_000).isolated(60_000, true),
            Sub::gen("crafted_headers", crafted_headers, 400, 4_000, 80_000).isolated(60_000, true),
            Sub::gen("components", components, 200, 200_000, 5_000_000).isolated(10_000, true),
            Sub::gen("random_bytes", random_bytes, 80, 200_000, 5_000_000).isolated(10_000, true),
        ],
        required: vec!["crafted:reconciled", "crafted:reached:pow", "crafted:reached:merkle", "crafted:edit:options", "crafted:edit:trace_info", "crafted:edit:commitment", "crafted:queries_ge_lde", "reached:channel", "reached:fri", "reached:options", "mode:option_set", "mode:min_conjectured", "mode:min_proven", "component:TraceInfo", "component:ProofOptions", "component:Context", "component:OodFrame", "component:Queries", "component:FriProof", "component:BatchMerkleProof", "component:Commitments", "component:element", "component:digest"],
        required_thorough: vec![],
    }
}

fn proof_mutants(s: &mut Src, rec: &mut Rec) -> CaseResult {
    let idx = s.below(NUM_HASHERS);
    with_hasher!(idx, X, run_x::<X>(s, rec))
}

fn run_x<X: HS>(s: &mut Src, rec: &mut Rec) -> CaseResult
where
    X::H: Send + Sync,
{
    let mut cfg = GenCfg::small();
    cfg.max_log_n = if X::is_rescue() { 4 } else { 6 };
    cfg.max_width = 5;
    let case = gen_case::<X>(s, &cfg, if X::is_rescue() { 1 << 7 } else { 1 << 10 }, rec);
    match case.opt.ext {
        1 => run::<X, <X::S as FSpec>::B>(s, rec, case),
        2 => run::<X, Q<<X::S as FSpec>::B>>(s, rec, case),
        _ => run::<X, C<<X::S as FSpec>::B>>(s, rec, case),
    }
}

fn stage_of(e: &winter_verifier::VerifierError) -> &'static str {
    use winter_verifier::VerifierError::*;
    match e {
        InconsistentBaseField | UnsupportedFieldExtension(_) | ProofDeserializationError(_) => "channel",
        InconsistentOodConstraintEvaluations | RandomCoinError => "ood",
        QuerySeedProofOfWorkVerificationFailed => "pow",
        TraceQueryDoesNotMatchCommitment | ConstraintQueryDoesNotMatchCommitment => "merkle",
        FriVerificationFailed(_) => "fri",
        InsufficientConjecturedSecurity(..) | InsufficientProvenSecurity(..) | UnacceptableProofOptions => "options",
    }
}

fn run<X: HS, E: FieldElement<BaseField = <X::S as FSpec>::B>>(s: &mut Src, rec: &mut Rec, case: Case<X>) -> CaseResult
where
    X::H: Send + Sync,
{
    let name = X::NAME;
    let spec = case.spec.clone();
    let proof = match prove::<X>(&spec, &case.options, case.main.clone()) {
        ProveOutcome::Proof(p) => *p,
        _ => {
            rec.class("prover_declined");
            return Ok(());
        },
    };
    let bytes = proof.to_bytes();
    let Some(fields) = map_proof(&bytes, digest_len::<X>()) else {
        return Err(Fail::new("harness-proof-layout", format!("cannot map the bytes of an honest proof ({name})")));
    };
    let row_bytes = case.opt.folding * E::ELEMENT_BYTES;
    let nmut = 30;
    let mut descs: Vec<String> = vec![];
    for _ in 0..nmut {
        let mut m = bytes.clone();
        let mut d = mutate(s, &mut m, &fields, None, row_bytes);
        // a second, independent edit in a quarter of the mutants: reaches states behind the first check
        if s.chance(1, 4) {
            if let Some(f2) = map_proof(&m, digest_len::<X>()) {
                d.push_str(" + ");
                d.push_str(&mutate(s, &mut m, &f2, None, row_bytes));
            }
        }
        if descs.len() < 3 {
            descs.push(d.clone());
        }
        let decoded = match catch(|| Proof::from_bytes(&m)) {
            Ok(Ok(p)) => p,
            Ok(Err(_)) => {
                rec.class("reached:decode_error");
                continue;
            },
            Err(pn) => {
                let key = format!("{}:from_bytes", pn.key());
                if rec.tolerate_known(&key) {
                    continue;
                }
                rec.redescribe(|| json!({"instance": name, "mutation": d, "options": case.opt.describe()}));
                return Err(Fail::new(key, format!("Proof::from_bytes panicked at {}: {} (mutation: {d}; {name}; options {})", pn.location, pn.message, case.opt.describe())));
            },
        };
        rec.nontrivial();
        let mode = s.below(3);
        let (acc, mname) = match mode {
            0 => (AcceptableOptions::OptionSet(vec![case.options.clone()]), "option_set"),
            1 => (AcceptableOptions::MinConjecturedSecurity(0), "min_conjectured"),
            _ => (AcceptableOptions::MinProvenSecurity(0), "min_proven"),
        };
        rec.class(&format!("mode:{mname}"));
        match verify_with::<X>(decoded, &spec, &acc) {
            VerifyOutcome::Accept => rec.class("reached:accept"),
            VerifyOutcome::Reject(e) => rec.class(&format!("reached:{}", stage_of(&e))),
            VerifyOutcome::Panic(pn) => {
                let key = format!("{}:verify", pn.key());
                if rec.tolerate_known(&key) {
                    continue;
                }
                rec.redescribe(|| json!({"instance": name, "mutation": d, "mode": mname, "options": case.opt.describe()}));
                return Err(Fail::new(key, format!("verify panicked at {}: {} (mutation: {d}; acceptable options mode {mname}; {name}; original options {})", pn.location, pn.message, case.opt.describe())));
            },
        }
    }
    rec.weight = nmut;
    rec.set_fp(&(name, spec.fingerprint(), format!("{:?}", case.opt), &descs));
    rec.describe(|| json!({"instance": name, "spec": spec.describe(), "options": case.opt.describe(), "first_mutations": descs, "mutants": nmut}));
    Ok(())
}

// COMPONENTS DECODED ALONE
// ================================================================================================

fn hostile(s: &mut Src, valid: &[u8]) -> Vec<u8> {
    let mut b = valid.to_vec();
    let n = s.range(1, 3);
    for _ in 0..n {
        match s.below(7) {
            0 if !b.is_empty() => {
                let i = s.below(b.len() as u64) as usize;
                b[i] = s.pick_copy(&[0u8, 1, 2, 3, 63, 64, 65, 127, 128, 254, 255]);
            },
            1 if !b.is_empty() => {
                let i = s.below(b.len() as u64) as usize;
                b[i] ^= 1 << s.below(8);
            },
            2 => {
                let cut = s.below(b.len() as u64 + 1) as usize;
                b.truncate(cut);
            },
            3 => {
                let at = s.below(b.len() as u64 + 1) as usize;
                let v = s.pick_copy(&[0u64, 1, 255, 1 << 20, 1 << 32, 1 << 56, 1 << 62, u64::MAX]);
                let enc = vint_encode(v, s.chance(1, 4));
                b.splice(at..at, enc);
            },
            4 if b.len() >= 2 => {
                // overwrite the first bytes (headers live there) with extreme values
                let k = s.range(1, 4.min(b.len() as u64)) as usize;
                for x in b.iter_mut().take(k) {
                    *x = s.pick_copy(&[0u8, 255, 0x80, 0x40, 1]);
                }
            },
            5 => {
                let n = s.range(1, 12) as usize;
                b.extend(s.bytes(n));
            },
            _ => {
                if !b.is_empty() {
                    let i = s.below(b.len() as u64) as usize;
                    b[i] = s.u8();
                }
            },
        }
    }
    b
}

macro_rules! decode_only {
    ($rec:expr, $label:expr, $bytes:expr, $body:expr) => {{
        $rec.class(concat!("component:", $label));
        match catch(|| $body) {
            Ok(_) => {},
            Err(pn) => {
                let key = format!("{}:{}", pn.key(), $label);
                if !$rec.tolerate_known(&key) {
                    let h: String = $bytes.iter().take(64).map(|x| format!("{x:02x}")).collect();
                    return Err(Fail::new(key, format!("decoding {} from untrusted bytes panicked at {}: {} (input {} bytes: {h}..)", $label, pn.location, pn.message, $bytes.len())));
                }
            },
        }
    }};
}

fn components(s: &mut Src, rec: &mut Rec) -> CaseResult {
    let idx = s.below(NUM_HASHERS);
    with_hasher!(idx, X, comp::<X>(s, rec))
}

fn comp<X: HS>(s: &mut Src, rec: &mut Rec) -> CaseResult {
    type B<X> = <<X as HS>::S as FSpec>::B;
    let kind = s.below(10);
    rec.nontrivial();
    match kind {
        0 => {
            let ml = s.below(10) as usize;
            let meta = s.bytes(ml);
            let v = TraceInfo::new_multi_segment(s.range(1, 200) as usize, s.below(50) as usize, 0, 1 << s.range(3, 20), meta).to_bytes();
            let b = hostile(s, &v);
            rec.set_fp(&("TraceInfo", &b));
            decode_only!(rec, "TraceInfo", b, TraceInfo::read_from_bytes(&b));
        },
        1 => {
            let v = vgen::options::OptSpec { queries: 27, blowup: 8, grinding: 4, ext: 2, folding: 4, rem_degree: 31, batch_c: 1, batch_d: 2, partitions: 3, hash_rate: 8 }.build().to_bytes();
            // every option byte 0..255 in isolation, and generated combinations
            let mut b = v.clone();
            if s.bool() {
                let i = s.below(b.len() as u64) as usize;
                b[i] = s.u8();
            } else {
                b = hostile(s, &v);
            }
            rec.set_fp(&("ProofOptions", &b));
            decode_only!(rec, "ProofOptions", b, ProofOptions::read_from_bytes(&b));
        },
        2 => {
            let o = vgen::options::OptSpec { queries: 27, blowup: 8, grinding: 4, ext: 1, folding: 4, rem_degree: 31, batch_c: 0, batch_d: 0, partitions: 1, hash_rate: 1 }.build();
            let ml = s.below(9) as usize;
            let meta = s.bytes(ml);
            let v = Context::new::<B<X>>(TraceInfo::with_meta(7, 64, meta), o, 12).to_bytes();
            let b = hostile(s, &v);
            rec.set_fp(&("Context", &b));
            decode_only!(rec, "Context", b, Context::read_from_bytes(&b).map(|c| {
                // accessors the verifier uses on a decoded context
                let _ = c.num_modulus_bits();
                let _ = c.lde_domain_size();
            }));
        },
        3 => {
            let dl = digest_len::<X>();
            let n = s.range(0, 6) as usize;
            let mut v = vec![];
            v.extend_from_slice(&((n * dl) as u16).to_le_bytes());
            v.extend(s.bytes(n * dl));
            let b = hostile(s, &v);
            rec.set_fp(&("Commitments", X::NAME, &b));
            let (a, c) = (s.below(4) as usize, s.below(8) as usize);
            decode_only!(rec, "Commitments", b, Commitments::read_from_bytes(&b).map(|cm| cm.parse::<X::H>(a, c).is_ok()));
        },
        4 => {
            // Queries: values + batch proof
            let rows = s.range(1, 6) as usize;
            let cols = s.range(1, 5) as usize;
            let eb = <B<X> as FieldElement>::ELEMENT_BYTES;
            let mut v = vint_encode((rows * cols * eb) as u64, false);
            v.extend(std::iter::repeat(1u8).take(rows * cols * eb));
            let mut p = vec![s.range(0, 6) as u8];
            let nv = s.range(0, 3);
            p.extend(vint_encode(nv, false));
            for _ in 0..nv {
                let k = s.range(0, 3);
                p.extend(vint_encode(k, false));
                p.extend(s.bytes(k as usize * digest_len::<X>()));
            }
            v.extend(vint_encode(p.len() as u64, false));
            v.extend(p);
            let b = hostile(s, &v);
            rec.set_fp(&("Queries", X::NAME, &b));
            // the number of queries comes from the proof (one byte); domain size and row width come from the AIR and are valid
            let (dom, nq, vq) = (1usize << s.range(0, 8), s.pick_copy(&[0usize, 1, 2, 5, 254, 255]), s.pick_copy(&[1usize, 2, 4, 255]));
            let use_valid_dims = s.bool();
            decode_only!(rec, "Queries", b, Queries::read_from_bytes(&b).map(|q| {
                if use_valid_dims { q.parse::<B<X>, X::H, MerkleTree<X::H>>(dom, rows, cols).is_ok() } else { q.parse::<B<X>, X::H, MerkleTree<X::H>>(dom, nq, vq).is_ok() }
            }));
        },
        5 => {
            let eb = <B<X> as FieldElement>::ELEMENT_BYTES;
            let (w, q) = (s.range(1, 5) as usize, s.range(1, 3) as usize);
            let mut v = vec![];
            let ts = 1 + 2 * w * eb;
            v.extend_from_slice(&(ts as u16).to_le_bytes());
            v.push(2);
            v.extend(std::iter::repeat(3u8).take(2 * w * eb));
            let qs = 1 + 2 * q * eb;
            v.extend_from_slice(&(qs as u16).to_le_bytes());
            v.push(2);
            v.extend(std::iter::repeat(5u8).take(2 * q * eb));
            let b = hostile(s, &v);
            rec.set_fp(&("OodFrame", X::NAME, &b));
            // widths come from the AIR (valid: at least one main column and one quotient)
            let (pw, pa, pq) = if s.bool() { (w, 0, q) } else { (s.range(1, 6) as usize, s.below(3) as usize, s.range(1, 4) as usize) };
            decode_only!(rec, "OodFrame", b, OodFrame::read_from_bytes(&b).map(|f| f.parse::<B<X>>(pw, pa, pq).is_ok()));
        },
        6 => {
            // FriProof: layers + remainder + partitions
            let eb = <B<X> as FieldElement>::ELEMENT_BYTES;
            let nl = s.range(0, 3);
            let mut v = vec![nl as u8];
            for _ in 0..nl {
                let vals = s.range(1, 4) as usize * 4 * eb;
                v.extend_from_slice(&(vals as u32).to_le_bytes());
                v.extend(std::iter::repeat(1u8).take(vals));
                let mut p = vec![s.range(0, 6) as u8];
                p.extend(vint_encode(0, false));
                v.extend_from_slice(&(p.len() as u32).to_le_bytes());
                v.extend(p);
            }
            let rl = (1usize << s.range(0, 3)) * eb;
            v.extend_from_slice(&(rl as u16).to_le_bytes());
            v.extend(std::iter::repeat(2u8).take(rl));
            v.push(s.pick_copy(&[0u8, 1, 2, 31, 32, 63, 64, 255]));
            let b = hostile(s, &v);
            rec.set_fp(&("FriProof", X::NAME, &b));
            let dom = 1usize << s.range(3, 12);
            let ff = s.pick_copy(&[2usize, 4, 8, 16]);
            decode_only!(rec, "FriProof", b, FriProof::read_from_bytes(&b).map(|f| {
                let _ = f.num_partitions();
                let _ = f.num_layers();
                let _ = f.size();
                let _ = f.num_remainder_elements::<B<X>>();
                let _ = f.parse_remainder::<B<X>>().is_ok();
                f.parse_layers::<B<X>, X::H, MerkleTree<X::H>>(dom, ff).is_ok()
            }));
        },
        7 => {
            let mut v = vec![s.u8()];
            let nv = s.range(0, 4);
            v.extend(vint_encode(nv, false));
            for _ in 0..nv {
                let k = s.range(0, 3);
                v.extend(vint_encode(k, false));
                v.extend(s.bytes(k as usize * digest_len::<X>()));
            }
            let b = hostile(s, &v);
            rec.set_fp(&("BatchMerkleProof", X::NAME, &b));
            let idx: Vec<usize> = (0..s.below(4)).map(|_| s.below(20) as usize).collect();
            let leaves: Vec<<X::H as Hasher>::Digest> = idx.iter().map(|_| <X::H as Hasher>::hash(b"leaf")).collect();
            decode_only!(rec, "BatchMerkleProof", b, BatchMerkleProof::<X::H>::read_from_bytes(&b).map(|p| {
                let _ = p.get_root(&idx, &leaves).is_ok();
                p.into_openings(&leaves, &idx).is_ok()
            }));
        },
        8 => {
            let bl = s.below(40) as usize;
            let b = s.bytes(bl);
            rec.set_fp(&("digest", X::NAME, &b));
            decode_only!(rec, "digest", b, <<X::H as Hasher>::Digest as Deserializable>::read_from_bytes(&b).is_ok());
        },
        _ => {
            let n = s.below(50) as usize;
            let mut b = s.bytes(n);
            if s.bool() && n >= 8 {
                for x in b.iter_mut().take(n) {
                    *x = 0xff;
                }
            }
            rec.set_fp(&("element", X::NAME, &b));
            decode_only!(rec, "element", b, {
                let _ = B::<X>::read_from_bytes(&b).is_ok();
                let _ = Q::<B<X>>::read_from_bytes(&b).is_ok();
                let _ = <B<X> as TryFrom<&[u8]>>::try_from(&b[..]).is_ok();
                let mut r = SliceReader::new(&b);
                let _ = winter_utils::ByteReader::read_many::<B<X>>(&mut r, n / 8).is_ok();
            });
        },
    }
    Ok(())
}

fn random_bytes(s: &mut Src, rec: &mut Rec) -> CaseResult {
    let n = match s.below(4) {
        0 => s.below(16) as usize,
        1 => s.below(64) as usize,
        _ => s.below(400) as usize,
    };
    let mut b = s.bytes(n);
    // half of the inputs start with a plausible context so that decoding goes deeper
    if s.bool() && n >= 20 {
        let head = [3u8, 0, 0, 5, 0, 0, 8, 1, 0, 0, 0, 0xff, 0xff, 0xff, 0xff, 27, 8, 0, 1, 4, 7, 0, 0, 1, 1, 0x19];
        let k = head.len().min(n);
        b[..k].copy_from_slice(&head[..k]);
    }
    rec.set_fp(&b);
    rec.nontrivial = n >= 26;
    rec.class("component:random_proof_bytes");
    match catch(|| Proof::from_bytes(&b).is_ok()) {
        Ok(_) => Ok(()),
        Err(pn) => {
            let key = format!("{}:from_bytes", pn.key());
            if rec.tolerate_known(&key) {
                return Ok(());
            }
            Err(Fail::new(key, format!("Proof::from_bytes panicked at {} on {} random bytes: {}", pn.location, n, pn.message)))
        },
    }
}


// CRAFTED HEADERS: WELL-FORMED, SELF-CONSISTENT PROOFS THE PROVER NEVER BUILT
// ================================================================================================

fn crafted_headers(s: &mut Src, rec: &mut Rec) -> CaseResult {
    let idx = s.below(NUM_HASHERS);
    with_hasher!(idx, X, crafted_x::<X>(s, rec))
}

fn crafted_x<X: HS>(s: &mut Src, rec: &mut Rec) -> CaseResult
where
    X::H: Send + Sync,
{
    use winter_air::proof::Context;
    use winter_air::TraceInfo;

    let name = X::NAME;
    let mut cfg = GenCfg::small();
    cfg.max_log_n = if X::is_rescue() { 4 } else { 6 };
    cfg.max_width = 5;
    let mut case = gen_case::<X>(s, &cfg, if X::is_rescue() { 1 << 7 } else { 1 << 10 }, rec);
    if s.chance(3, 4) {
        // no grinding: otherwise nearly every edited transcript ends at the proof-of-work check
        case.opt.grinding = 0;
        case.options = case.opt.build();
    }
    let spec = case.spec.clone();
    let honest = match prove::<X>(&spec, &case.options, case.main.clone()) {
        ProveOutcome::Proof(p) => *p,
        _ => {
            rec.class("prover_declined");
            return Ok(());
        },
    };
    let lde = honest.lde_domain_size();
    let nmut = 12;
    let mut descs: Vec<String> = vec![];
    for _ in 0..nmut {
        let mut p = honest.clone();
        let mut opt = case.opt.clone();
        let mut info = p.trace_info().clone();
        let mut d = String::new();
        let nedits = if s.chance(1, 4) { 2 } else { 1 };
        for _ in 0..nedits {
            match s.weighted(&[10, 4, 3, 2, 1, 1]) {
                0 => {
                    rec.class("crafted:edit:options");
                    match s.below(8) {
                        0 | 1 => {
                            opt.queries = match s.below(5) {
                                0 => 255,
                                1 => lde.min(255),
                                2 => (lde + 1).min(255),
                                3 => lde.saturating_sub(1).clamp(1, 255),
                                _ => s.range(1, 255) as usize,
                            };
                            if opt.queries >= lde {
                                rec.class("crafted:queries_ge_lde");
                            }
                        },
                        2 => opt.grinding = s.range(0, 32) as u32,
                        3 => opt.blowup = 1 << s.range(1, 7),
                        4 => opt.folding = 1 << s.range(1, 4),
                        5 => opt.rem_degree = (1usize << s.range(0, 8)) - 1,
                        6 => {
                            opt.batch_c = s.below(3) as u8;
                            opt.batch_d = s.below(3) as u8;
                        },
                        _ => {
                            opt.partitions = s.range(1, 16) as usize;
                            opt.hash_rate = s.range(1, 255) as usize;
                        },
                    }
                    d.push_str(&format!("options := {}; ", opt.describe()));
                },
                1 => {
                    rec.class("crafted:edit:trace_info");
                    let (mw, aw, ar, len, meta) = (info.main_trace_width(), info.aux_segment_width(), info.get_num_aux_segment_rand_elements(), info.length(), info.meta().to_vec());
                    let cand = match s.below(5) {
                        0 => (mw, aw, ar, (len * 2).min(1 << 20), meta),
                        1 => (mw, aw, ar, (len / 2).max(8), meta),
                        2 => ((mw + 1).min(255), aw, ar, len, meta),
                        3 => (mw.saturating_sub(1).max(1), aw, ar, len, meta),
                        _ => {
                            let ml = s.pick_copy(&[0usize, 1, 7, 8, 9]);
                            (mw, aw, ar, len, s.bytes(ml))
                        },
                    };
                    if let Ok(ti) = catch(|| TraceInfo::new_multi_segment(cand.0, cand.1, cand.2, cand.3, cand.4.clone())) {
                        info = ti;
                    }
                    d.push_str(&format!("trace info := ({}, {}, {}, {}, {} meta bytes); ", cand.0, cand.1, cand.2, cand.3, cand.4.len()));
                },
                2 => {
                    rec.class("crafted:edit:commitment");
                    // flip one byte inside the commitments blob (a digest changes, the layout does not)
                    let mut b = p.commitments.to_bytes();
                    if b.len() > 2 {
                        let i = 2 + s.below(b.len() as u64 - 2) as usize;
                        b[i] ^= 1 << s.below(8);
                        if let Ok(c) = winter_air::proof::Commitments::read_from_bytes(&b) {
                            p.commitments = c;
                        }
                        d.push_str(&format!("commitments byte {i} flipped; "));
                    }
                },
                3 => {
                    let mut b = p.ood_frame.to_bytes();
                    if b.len() > 4 {
                        let i = 3 + s.below(b.len() as u64 - 3) as usize;
                        b[i] ^= 1 << s.below(8);
                        if let Ok(f) = winter_air::proof::OodFrame::read_from_bytes(&b) {
                            p.ood_frame = f;
                        }
                        d.push_str(&format!("ood frame byte {i} flipped; "));
                    }
                },
                4 => {
                    p.num_unique_queries = s.range(1, 255) as u8;
                    d.push_str(&format!("num_unique_queries := {}; ", p.num_unique_queries));
                },
                _ => {
                    p.pow_nonce = s.u64();
                    d.push_str("nonce replaced; ");
                },
            }
        }
        let Ok(new_options) = catch(|| opt.build()) else { continue };
        let nc = p.context.num_constraints();
        let Ok(ctx) = catch(|| Context::new::<<X::S as FSpec>::B>(info.clone(), new_options.clone(), nc)) else { continue };
        p.context = ctx;
        let rc = catch(|| match opt.ext {
            1 => crate::craft::reconcile_ood::<X, <X::S as FSpec>::B>(&mut p, &spec),
            2 => crate::craft::reconcile_ood::<X, Q<<X::S as FSpec>::B>>(&mut p, &spec),
            _ => {
                if <X::S as FSpec>::CUBE.is_some() {
                    crate::craft::reconcile_ood::<X, C<<X::S as FSpec>::B>>(&mut p, &spec)
                } else {
                    Err("no cubic extension".into())
                }
            },
        });
        match rc {
            Ok(Ok(())) => rec.class("crafted:reconciled"),
            Ok(Err(_)) => rec.class("crafted:reconcile_failed"),
            // the AIR's own methods panicking on a header they cannot represent is not the verifier's doing
            Err(_) => rec.class("crafted:reconcile_panicked"),
        }
        if descs.len() < 3 {
            descs.push(d.clone());
        }
        // through the wire format, as a verifier would receive it
        let bytes = p.to_bytes();
        let decoded = match catch(|| Proof::from_bytes(&bytes)) {
            Ok(Ok(q)) => q,
            Ok(Err(_)) => {
                rec.class("crafted:reached:decode_error");
                continue;
            },
            Err(pn) => {
                let key = format!("{}:from_bytes", pn.key());
                if rec.tolerate_known(&key) {
                    continue;
                }
                return Err(Fail::new(key, format!("Proof::from_bytes panicked at {}: {} (crafted: {d}; {name})", pn.location, pn.message)));
            },
        };
        rec.nontrivial();
        let mode = s.below(3);
        let (acc, mname) = match mode {
            0 => (AcceptableOptions::OptionSet(vec![new_options.clone()]), "option_set"),
            1 => (AcceptableOptions::MinConjecturedSecurity(0), "min_conjectured"),
            _ => (AcceptableOptions::MinProvenSecurity(0), "min_proven"),
        };
        match verify_with::<X>(decoded, &spec, &acc) {
            VerifyOutcome::Accept => rec.class("crafted:reached:accept"),
            VerifyOutcome::Reject(e) => rec.class(&format!("crafted:reached:{}", stage_of(&e))),
            VerifyOutcome::Panic(pn) => {
                let key = format!("{}:verify", pn.key());
                if rec.tolerate_known(&key) {
                    continue;
                }
                rec.redescribe(|| json!({"instance": name, "crafted": d, "mode": mname, "original_options": case.opt.describe()}));
                return Err(Fail::new(key, format!("verify panicked at {}: {} (crafted proof: {d}acceptable options mode {mname}; {name}; original options {}; LDE domain {lde})", pn.location, pn.message, case.opt.describe())));
            },
        }
    }
    rec.weight = nmut;
    rec.set_fp(&(name, spec.fingerprint(), format!("{:?}", case.opt), &descs));
    rec.describe(|| json!({"instance": name, "spec": spec.describe(), "options": case.opt.describe(), "first_crafted": descs, "crafted": nmut}));
    Ok(())
}
