//! The bundled example AIRs (fibonacci ×5, VDF ×2, Rescue hash chain, Rescue RAPs with an
//! auxiliary segment, Merkle path, Lamport aggregate) under generated options and hashers.
//! C01 uses them for completeness, C02 for rejection of wrong public inputs.

use examples::Example;
use vcore::*;
use vgen::options::{gen_options, OptSpec};
use winter_crypto::hashers::{Blake3_192, Blake3_256, Rp64_256, RpJive64_256, Sha3_256};
use winter_math::fields::{f128, f64};

pub struct ExCase {
    pub example: Box<dyn Example>,
    pub name: &'static str,
    pub hasher: &'static str,
    pub size: usize,
    pub trace_len: usize,
    pub opt: OptSpec,
}

type B = f128::BaseElement;
type S = f64::BaseElement;

/// Generates (example kind, size, hasher, options). `None` = constructing the example panicked
/// (recorded by the caller as declined).
pub fn gen_example(s: &mut Src, rec: &mut Rec) -> Result<ExCase, PanicInfo> {
    let thorough = std::env::var("VERIF_TIER").map(|t| t == "thorough").unwrap_or(false);
    let kind = s.weighted(&[3, 3, 3, 3, 4, 3, 3, 3, 3, 3, if thorough { 1 } else { 0 }]);
    let name = ["fib2", "fib8", "mulfib2", "mulfib8", "fib_small", "vdf", "vdf_exempt", "rescue", "rescue_raps", "merkle", "lamport_aggregate"][kind];
    // (size parameter, trace length, minimum blowup taken from the example's own defaults)
    let (size, trace_len, min_blowup) = match kind {
        0 | 2 | 4 => {
            let t = 1usize << s.range(3, 10);
            (t * 2, t, if kind == 2 { 2 } else { 2 })
        },
        1 | 3 => {
            let t = 1usize << s.range(3, 9);
            (t * 8, t, 2)
        },
        5 => {
            let t = 1usize << s.range(3, 10);
            (t, t, 4)
        },
        6 => {
            let t = 1usize << s.range(3, 10);
            (t - 1, t, 4)
        },
        7 => {
            let c = 1usize << s.range(0, 5);
            (c, c * 16, 4)
        },
        8 => {
            let c = 1usize << s.range(2, 5);
            (c, c * 16, 4)
        },
        9 => {
            let d = (1usize << s.range(1, 4)) - 1;
            (d, (d + 1) * 8, 8)
        },
        _ => {
            // at least two signatures: the example's own `verify_with_wrong_inputs` swaps the first two keys
            let n = 1usize << s.range(1, 2);
            (n, n * 1024, 8)
        },
    };
    let small_field = kind == 4;
    // f128 has no cubic extension
    let opt = gen_options(s, trace_len, min_blowup, 1 << 14, small_field, rec);
    let options = opt.build();
    let hsel = if small_field { s.below(5) } else { s.below(3) };
    let hasher = ["Blake3_256", "Blake3_192", "Sha3_256", "Rp64_256", "RpJive64_256"][hsel as usize];
    rec.class(&format!("example:{name}"));
    rec.class(&format!("example_hasher:{hasher}"));
    macro_rules! mk {
        ($ty:ident, $module:path) => {{
            use $module as m;
            match hsel {
                0 => Box::new(m::$ty::<Blake3_256<B>>::new(size, options)) as Box<dyn Example>,
                1 => Box::new(m::$ty::<Blake3_192<B>>::new(size, options)) as Box<dyn Example>,
                _ => Box::new(m::$ty::<Sha3_256<B>>::new(size, options)) as Box<dyn Example>,
            }
        }};
    }
    let example = catch(move || -> Box<dyn Example> {
        match kind {
            0 => mk!(FibExample, examples::fibonacci::fib2),
            1 => mk!(Fib8Example, examples::fibonacci::fib8),
            2 => mk!(MulFib2Example, examples::fibonacci::mulfib2),
            3 => mk!(MulFib8Example, examples::fibonacci::mulfib8),
            4 => {
                use examples::fibonacci::fib_small as m;
                match hsel {
                    0 => Box::new(m::FibExample::<Blake3_256<S>>::new(size, options)),
                    1 => Box::new(m::FibExample::<Blake3_192<S>>::new(size, options)),
                    2 => Box::new(m::FibExample::<Sha3_256<S>>::new(size, options)),
                    3 => Box::new(m::FibExample::<Rp64_256>::new(size, options)),
                    _ => Box::new(m::FibExample::<RpJive64_256>::new(size, options)),
                }
            },
            5 => mk!(VdfExample, examples::vdf::regular),
            6 => mk!(VdfExample, examples::vdf::exempt),
            7 => mk!(RescueExample, examples::rescue),
            8 => mk!(RescueRapsExample, examples::rescue_raps),
            9 => mk!(MerkleExample, examples::merkle),
            _ => mk!(LamportAggregateExample, examples::lamport::aggregate),
        }
    })?;
    Ok(ExCase { example, name, hasher, size, trace_len, opt })
}
