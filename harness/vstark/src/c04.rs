//! C04 — tampered proof bytes are rejected unless semantically identical.

use vcore::*;
use vfield::{Spec as FSpec, C, Q};
use vgen::gen::GenCfg;
use vhash::*;
use winter_air::proof::Proof;
use winter_math::FieldElement;

use crate::common::*;
use crate::mutate::*;
use crate::view::parsed_view;

pub fn prop() -> Prop {
    Prop {
        id: "C04",
        level: "fault_enumeration",
        rule: "fault cases = the encoding of an honest GenAir proof (12 instances, all extension degrees) with one generated mutation (occasionally followed by 1-2 further byte-level ones): bit flip, byte substitution, truncation, span duplication, edit of one encoded field with a value dictionary (0, 1, max, +-1, 254, 255, 2^62, ...), edit inside a value / digest blob, consistent multi-site edits (one more query row appended to a FRI layer with its length prefix fixed; a Merkle node count changed; a size value re-encoded non-minimally; trailing bytes; the FRI num_partitions byte), and splices of the same field from a second honest proof of the same AIR. 40 mutants per proof. Oracle: outcome in {Proof::from_bytes error, verify error (same public inputs, OptionSet of the original options), accepted and parsed contents equal to the original's}; parsed contents = exactly what the property lists. A panic is counted (crashed) and left to C05. Non-trivial = the mutant bytes differ from the original and decode as a proof; distinct = hash of (instance, spec, options, mutation).",
        assumptions: vec![
            "parsed contents are compared through Commitments::parse, Queries::parse, OodFrame::parse, FriProof::parse_layers / parse_remainder with the parameters of the original proof; what the property does not list (FRI num_partitions byte, non-minimal size encodings, trailing bytes) is ignored by the comparison",
        ],
        subs: vec![Sub::gen("mutants", mutants, 900, 3_000, 60_000).isolated(120_000, false).crashes_counted_only()],
        required: vec!["op:bit_flip", "op:byte_substitution", "op:truncation", "op:span_duplication", "op:field_edit", "op:blob_edit", "op:fri_extra_row", "op:vint_nonminimal", "op:trailing_bytes", "op:fri_num_partitions", "op:cross_proof_splice", "outcome:decode_error", "outcome:rejected", "outcome:accepted_equal", "ext:1", "ext:2", "ext:3"],
        required_thorough: vec![],
    }
}

fn mutants(s: &mut Src, rec: &mut Rec) -> CaseResult {
    let idx = s.below(NUM_HASHERS);
    with_hasher!(idx, X, run_x::<X>(s, rec))
}

fn run_x<X: HS>(s: &mut Src, rec: &mut Rec) -> CaseResult
where
    X::H: Send + Sync,
{
    let mut cfg = GenCfg::small();
    cfg.max_log_n = if X::is_rescue() { 4 } else { 6 };
    cfg.max_width = 5;
    let case = gen_case::<X>(s, &cfg, if X::is_rescue() { 1 << 7 } else { 1 << 10 }, rec);
    rec.class(&format!("ext:{}", case.opt.ext));
    match case.opt.ext {
        1 => run::<X, <X::S as FSpec>::B>(s, rec, case),
        2 => run::<X, Q<<X::S as FSpec>::B>>(s, rec, case),
        _ => run::<X, C<<X::S as FSpec>::B>>(s, rec, case),
    }
}

pub fn digest_len<X: HS>() -> usize {
    match X::KIND {
        HKind::Blake192 => 24,
        HKind::Rp62 => 31,
        _ => 32,
    }
}

fn run<X: HS, E: FieldElement<BaseField = <X::S as FSpec>::B>>(s: &mut Src, rec: &mut Rec, case: Case<X>) -> CaseResult
where
    X::H: Send + Sync,
{
    let name = X::NAME;
    let spec = case.spec.clone();
    let proof = match prove::<X>(&spec, &case.options, case.main.clone()) {
        ProveOutcome::Proof(p) => *p,
        _ => {
            rec.class("prover_declined");
            return Ok(());
        },
    };
    let bytes = proof.to_bytes();
    if !matches!(verify_proof::<X>(proof.clone(), &spec, &case.options), VerifyOutcome::Accept) {
        rec.class("honest_proof_not_accepted");
        return Ok(());
    }
    let Some(fields) = map_proof(&bytes, digest_len::<X>()) else {
        return Err(Fail::new("harness-proof-layout", format!("cannot map the bytes of an honest proof ({name})")));
    };
    let original_view = parsed_view::<X, E>(&proof, &spec, &case.options).map_err(|e| Fail::new("harness-view", e))?;
    // a second honest proof of the same AIR (different trace) for splices
    let other = {
        let main2 = vgen::trace::build_main::<X::S>(&spec, s.u64() | 1);
        // assertions read off the first trace would not hold for another trace: only usable as a byte donor when it proves
        match prove::<X>(&spec, &case.options, main2) {
            ProveOutcome::Proof(p) => {
                let b = p.to_bytes();
                map_proof(&b, digest_len::<X>()).map(|f| (b, f))
            },
            _ => None,
        }
    };
    let ctx = format!("{name}; spec {}; options {}", spec.describe(), case.opt.describe());
    let row_bytes = case.opt.folding * E::ELEMENT_BYTES;
    let nmut = 40;
    let mut descs: Vec<String> = vec![];
    for _ in 0..nmut {
        let mut m = bytes.clone();
        let mut d = mutate(s, &mut m, &fields, other.as_ref(), row_bytes);
        if s.chance(1, 5) && !m.is_empty() {
            let extra = s.range(1, 2);
            for _ in 0..extra {
                let i = s.below(m.len() as u64) as usize;
                m[i] ^= 1 << s.below(8);
                d.push_str(&format!(" + bit_flip at {i}"));
            }
        }
        let op = d.split([' ', ':']).next().unwrap_or("").to_string();
        rec.class(&format!("op:{op}"));
        if m == bytes {
            rec.class("mutant_identical");
            continue;
        }
        if descs.len() < 3 {
            descs.push(d.clone());
        }
        let decoded = match catch(|| Proof::from_bytes(&m)) {
            Ok(Ok(p)) => p,
            Ok(Err(_)) => {
                rec.class("outcome:decode_error");
                continue;
            },
            Err(_) => {
                rec.class("outcome:crashed");
                continue;
            },
        };
        rec.nontrivial();
        // the verifier's policy on options: the exact option set of the honest proof, or any options
        // reaching a security level (then the header bytes are not pinned by the policy itself)
        let outcome = if s.chance(1, 3) {
            rec.class("policy:min_conjectured_security");
            verify_with::<X>(decoded.clone(), &spec, &winter_verifier::AcceptableOptions::MinConjecturedSecurity(0))
        } else {
            verify_proof::<X>(decoded.clone(), &spec, &case.options)
        };
        match outcome {
            VerifyOutcome::Reject(e) => {
                rec.class("outcome:rejected");
                rec.class(&format!("rejected_with:{}", err_name(&e)));
            },
            VerifyOutcome::Panic(_) => rec.class("outcome:crashed"),
            VerifyOutcome::Accept => {
                let same = match parsed_view::<X, E>(&decoded, &spec, &case.options) {
                    Ok(v) => {
                        let diff: Vec<&str> = v.iter().zip(&original_view).filter(|(a, b)| a != b).map(|(a, _)| a.0).collect();
                        if diff.is_empty() && v.len() == original_view.len() {
                            None
                        } else {
                            Some(format!("{diff:?}"))
                        }
                    },
                    Err(e) => Some(format!("mutant does not parse: {e}")),
                };
                // A different proof-of-work nonce that passes the grinding check and leads to exactly the same
                // query positions is an alternative honest proof of the same statement (the prover may return any
                // valid nonce, cf. C06), not a tampered one: accepted, and counted separately.
                let same = match same {
                    Some(diff) if diff == "[\"pow_nonce\"]" => {
                        let a = crate::replay::replay::<X, E>(&proof, &spec, &case.options).map(|t| t.positions);
                        let b = crate::replay::replay::<X, E>(&decoded, &spec, &case.options).map(|t| t.positions);
                        if a.is_ok() && a == b {
                            // ... unless the two nonces are indistinguishable to the hash function itself: merging
                            // them into the same (arbitrary) digest must give different digests; if it does not, the
                            // verifier cannot tell the tampered nonce from the original one for ANY proof
                            let probe = <X::H as winter_crypto::Hasher>::hash(b"C04 nonce probe");
                            let collide = <X::H as winter_crypto::Hasher>::merge_with_int(probe, proof.pow_nonce) == <X::H as winter_crypto::Hasher>::merge_with_int(probe, decoded.pow_nonce);
                            if !collide {
                                rec.class("outcome:accepted_alternative_nonce_same_positions");
                                continue;
                            }
                            return Err(Fail::new("tampered-proof-accepted:nonce-indistinguishable-to-the-hasher", format!("the verifier ACCEPTED a proof whose nonce was changed from {} to {}: the hasher merges both into the same digest (mutation: {d}; {ctx})", proof.pow_nonce, decoded.pow_nonce)));
                        }
                        Some(diff)
                    },
                    other => other,
                };
                match same {
                    None => rec.class("outcome:accepted_equal"),
                    Some(diff) => {
                        // a context that differs ONLY in option fields that are not part of the public-coin seed
                        // (partition options, batching methods) is one recorded finding, whatever operator produced it
                        let only_partitions = diff == "[\"context\"]" && {
                            let (a, b) = (proof.options(), decoded.options());
                            (a.partition_options() != b.partition_options()
                                || a.constraint_batching_method() != b.constraint_batching_method()
                                || a.deep_poly_batching_method() != b.deep_poly_batching_method())
                                && a.num_queries() == b.num_queries()
                                && a.blowup_factor() == b.blowup_factor()
                                && a.grinding_factor() == b.grinding_factor()
                                && a.field_extension() == b.field_extension()
                                && a.to_fri_options().folding_factor() == b.to_fri_options().folding_factor()
                                && a.to_fri_options().remainder_max_degree() == b.to_fri_options().remainder_max_degree()
                                && proof.trace_info() == decoded.trace_info()
                                && proof.context.num_constraints() == decoded.context.num_constraints()
                                && proof.context.field_modulus_bytes() == decoded.context.field_modulus_bytes()
                        };
                        let key = if only_partitions {
                            "tampered-proof-accepted:option-fields-not-bound-by-seed".to_string()
                        } else {
                            format!("tampered-proof-accepted:{op}:{}", diff.chars().filter(|c| c.is_alphanumeric() || *c == '_' || *c == ',').take(60).collect::<String>())
                        };
                        if rec.tolerate_known(&key) {
                            continue;
                        }
                        rec.redescribe(|| json!({"instance": name, "spec": spec.describe(), "options": case.opt.describe(), "mutation": d}));
                        return Err(Fail::new(key, format!("the verifier ACCEPTED a tampered proof whose parsed contents differ from the original's in {diff} (mutation: {d}; {ctx})")));
                    },
                }
            },
        }
    }
    rec.weight = nmut;
    rec.set_fp(&(name, spec.fingerprint(), format!("{:?}", case.opt), &descs));
    rec.describe(|| json!({"instance": name, "spec": spec.describe(), "options": case.opt.describe(), "first_mutations": descs, "mutants": nmut}));
    Ok(())
}
