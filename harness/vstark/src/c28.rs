//! C28 — trace and composition LDEs and row commitments match their definitions.
//! (The thread-count clause is decided by the serial/concurrent differential stage of this check (vdet family 'matrix'; evidence key thread_differential).)

use vcore::*;
use vfield::{gen_elem, Mix, Spec as FSpec, C, Q};
use vhash::*;
use winter_air::PartitionOptions;
use winter_crypto::{ElementHasher, Hasher, MerkleTree};
use winter_math::{fft, FieldElement, StarkField};
use winter_prover::matrix::{ColMatrix, RowMatrix};
use winter_prover::StarkDomain;

pub fn prop() -> Prop {
    Prop {
        id: "C28",
        level: "exploration",
        rule: "case = (one of 12 (field, hasher) instances; E in {base, quadratic, cubic where supported}; 1..40 columns incl. counts not divisible by the segment width (1 and 9 forced regularly); polynomial size 8..2^10 (2^13 thorough); blowup 2..16; segment width N in {1,2,4,8}; domain offset GENERATOR or generated; partition options 1..16 x hash rate 1..255). Oracle: RowMatrix::evaluate_polys_over::<N> / evaluate_polys::<N> row i column j = Horner(poly_j, offset * g_lde^i) (all rows up to 4096 cells, else first/last + 60 generated rows); ColMatrix::interpolate_columns (and _into) re-evaluated at g_trace^i reproduces the columns; evaluate_columns_over / evaluate_columns_at = naive evaluation; RowMatrix::commit_to_rows(partition options) = root of the harness's recursion over row digests computed with the partition rule the verifier applies (chunks of partition_size hashed, then merge_many; a single hash when the partition covers the row); ColMatrix::commit_to_rows = unpartitioned reference. Non-trivial = >= 2 columns and a partial last segment or more than one partition; distinct = hash of the parameters and the coefficient seed.",
        assumptions: vec![
            "reference evaluation uses winterfell field operators with Horner's rule at explicitly computed domain points (definitions, no FFT); H::hash_elements / merge_many / merge are the subject of C15/C16",
            "partition size re-derived from the rustdoc: columns when one partition, else max(ceil(columns / partitions), hash_rate / extension_degree)",
        ],
        subs: vec![Sub::gen("matrices", matrices, 96, 2_000, 25_000)],
        required: vec!["cols_1", "cols_9", "partial_last_segment", "partitions_gt_1", "ext_2", "ext_3", "segment_width_1", "segment_width_8", "offset_not_generator", "hasher:Rp64_256", "field:f62", "field:f128"],
        required_thorough: vec![],
    }
}

fn matrices(s: &mut Src, rec: &mut Rec) -> CaseResult {
    let idx = s.below(NUM_HASHERS);
    with_hasher!(idx, X, {
        let cube = <<X as HS>::S as FSpec>::CUBE.is_some();
        match s.below(3) {
            0 => run::<X, <<X as HS>::S as FSpec>::B>(s, rec),
            1 => run::<X, Q<<<X as HS>::S as FSpec>::B>>(s, rec),
            _ if cube => run::<X, C<<<X as HS>::S as FSpec>::B>>(s, rec),
            _ => run::<X, Q<<<X as HS>::S as FSpec>::B>>(s, rec),
        }
    })
}

fn horner<E: FieldElement>(p: &[E], x: E) -> E {
    p.iter().rev().fold(E::ZERO, |acc, c| acc * x + *c)
}

fn ref_root<H: Hasher>(mut level: Vec<H::Digest>) -> H::Digest {
    while level.len() > 1 {
        level = level.chunks(2).map(|c| H::merge(&[c[0], c[1]])).collect();
    }
    level[0]
}

fn ref_row_digest<H: ElementHasher<BaseField = E::BaseField>, E: FieldElement>(row: &[E], partitions: usize, hash_rate: usize) -> H::Digest {
    let cols = row.len();
    let psize = if partitions == 1 { cols } else { cols.div_ceil(partitions).max(hash_rate / E::EXTENSION_DEGREE) };
    if psize == cols {
        H::hash_elements(row)
    } else {
        let parts: Vec<H::Digest> = row.chunks(psize).map(|c| H::hash_elements(c)).collect();
        H::merge_many(&parts)
    }
}

fn run<X: HS, E: FieldElement<BaseField = <X::S as FSpec>::B>>(s: &mut Src, rec: &mut Rec) -> CaseResult {
    type B<X> = <<X as HS>::S as FSpec>::B;
    let thorough = std::env::var("VERIF_TIER").map(|t| t == "thorough").unwrap_or(false);
    let name = X::NAME;
    rec.class(&format!("hasher:{name}"));
    rec.class(&format!("field:{}", <X::S as FSpec>::NAME));
    rec.class(&format!("ext_{}", E::EXTENSION_DEGREE));
    let cols = match s.below(6) {
        0 => 1,
        1 => 9,
        2 => s.range(2, 7) as usize,
        _ => s.range(1, if X::is_rescue() { 12 } else { 40 }) as usize,
    };
    let log_n = s.range(3, if thorough { 13 } else if X::is_rescue() { 7 } else { 10 }) as u32;
    let n = 1usize << log_n;
    let blowup = 1usize << s.range(1, 4);
    let lde = n * blowup;
    let seg = s.pick_copy(&[1usize, 2, 4, 8]);
    rec.class(&format!("segment_width_{seg}"));
    rec.class(&format!("cols_{cols}"));
    let base_cols = cols * E::EXTENSION_DEGREE;
    rec.class_if(base_cols % seg != 0, "partial_last_segment");
    let (partitions, hash_rate) = if s.chance(1, 2) { (s.range(2, 16) as usize, s.pick_copy(&[1usize, 2, 3, 4, 8, 16, 64, 255])) } else { (1, 1) };
    let po = PartitionOptions::new(partitions, hash_rate);
    let generator = <B<X> as StarkField>::GENERATOR;
    let offset: B<X> = if s.chance(1, 3) {
        rec.class("offset_not_generator");
        let (o, _) = gen_elem::<X::S, B<X>>(s);
        if o == B::<X>::ZERO {
            B::<X>::ONE
        } else {
            o
        }
    } else {
        generator
    };
    let seed = s.u64();
    let mut mix = Mix(seed);
    let polys: Vec<Vec<E>> = (0..cols).map(|c| (0..n).map(|i| if c == 0 && i < 2 { gen_elem::<X::S, E>(s).0 } else { mix.elem::<X::S, E>().0 }).collect()).collect();
    let eff_partitions = if partitions == 1 { 1 } else { cols.div_ceil(cols.div_ceil(partitions).max(hash_rate / E::EXTENSION_DEGREE)) };
    rec.class_if(eff_partitions > 1, "partitions_gt_1");
    if cols >= 2 && (base_cols % seg != 0 || eff_partitions > 1) {
        rec.nontrivial();
    }
    rec.set_fp(&(name, E::EXTENSION_DEGREE, cols, n, blowup, seg, partitions, hash_rate, seed, offset == generator));
    rec.describe(|| json!({"instance": name, "extension_degree": E::EXTENSION_DEGREE, "columns": cols, "poly_size": n, "blowup": blowup, "segment_width": seg, "partitions": [partitions, hash_rate], "offset_is_generator": offset == generator}));
    let ctx = format!("{name}, E degree {}, {cols} columns, size {n}, blowup {blowup}, segment width {seg}, partitions ({partitions}, {hash_rate})", E::EXTENSION_DEGREE);
    let poly_matrix = ColMatrix::new(polys.clone());
    let domain = StarkDomain::from_twiddles(fft::get_twiddles::<B<X>>(n), blowup, offset);
    macro_rules! eval_over {
        ($N:expr) => {
            catch(|| (RowMatrix::<E>::evaluate_polys_over::<$N>(&poly_matrix, &domain), RowMatrix::<E>::evaluate_polys::<$N>(&poly_matrix, blowup)))
        };
    }
    let r = match seg {
        1 => eval_over!(1),
        2 => eval_over!(2),
        4 => eval_over!(4),
        _ => eval_over!(8),
    };
    let (m_over, m_gen) = match r {
        Ok(x) => x,
        Err(pn) => return Err(Fail::new(pn.key(), format!("RowMatrix evaluation panicked at {}: {} ({ctx})", pn.location, pn.message))),
    };
    ensure!(m_over.num_rows() == lde && m_over.num_cols() == cols, "row-matrix-shape", "evaluate_polys_over produced a {} x {} matrix ({ctx})", m_over.num_rows(), m_over.num_cols());
    ensure!(m_gen.num_rows() == lde && m_gen.num_cols() == cols, "row-matrix-shape", "evaluate_polys produced a {} x {} matrix ({ctx})", m_gen.num_rows(), m_gen.num_cols());
    let g_lde = <B<X> as StarkField>::get_root_of_unity(lde.ilog2());
    let rows: Vec<usize> = if lde * cols <= 4096 {
        (0..lde).collect()
    } else {
        let mut v = vec![0, 1, lde - 1, lde / 2, n - 1, n, n + 1];
        for _ in 0..53 {
            v.push(s.below(lde as u64) as usize);
        }
        v
    };
    for &i in &rows {
        let gi = g_lde.exp(<X::S as FSpec>::pint(i as u128));
        let x = E::from(offset * gi);
        let xg = E::from(generator * gi);
        for j in 0..cols {
            let want = horner(&polys[j], x);
            ensure!(m_over.row(i)[j] == want && m_over.get(j, i) == want, format!("lde-wrong:evaluate_polys_over<{seg}>"), "evaluate_polys_over::<{seg}> row {i} column {j} is not poly_{j}(offset * g^{i}) ({ctx})");
            let wantg = horner(&polys[j], xg);
            ensure!(m_gen.row(i)[j] == wantg, format!("lde-wrong:evaluate_polys<{seg}>"), "evaluate_polys::<{seg}> row {i} column {j} is not poly_{j}(GENERATOR * g^{i}) ({ctx})");
        }
    }
    // column-matrix evaluation
    let cm = match catch(|| poly_matrix.evaluate_columns_over(&domain)) {
        Ok(m) => m,
        Err(pn) => return Err(Fail::new(pn.key(), format!("evaluate_columns_over panicked: {} ({ctx})", pn.message))),
    };
    for &i in rows.iter().take(24) {
        let x = E::from(offset * g_lde.exp(<X::S as FSpec>::pint(i as u128)));
        for j in 0..cols {
            ensure!(cm.get(j, i) == horner(&polys[j], x), "lde-wrong:evaluate_columns_over", "evaluate_columns_over row {i} column {j} differs from naive evaluation ({ctx})");
        }
    }
    let (z, _) = gen_elem::<X::S, E>(s);
    let at = poly_matrix.evaluate_columns_at(z);
    for j in 0..cols {
        ensure!(at[j] == horner(&polys[j], z), "evaluate_columns_at", "evaluate_columns_at differs from Horner evaluation in column {j} ({ctx})");
    }
    // interpolation inverts evaluation over the trace domain
    let g_trace = <B<X> as StarkField>::get_root_of_unity(log_n);
    let trace_cols: Vec<Vec<E>> = {
        // values of the polynomials over the (unshifted) trace domain, computed naively for small sizes, by FFT otherwise
        if n * cols <= 2048 {
            (0..cols).map(|j| (0..n).map(|i| horner(&polys[j], E::from(g_trace.exp(<X::S as FSpec>::pint(i as u128))))).collect()).collect()
        } else {
            let tw = fft::get_twiddles::<B<X>>(n);
            polys.iter().map(|p| { let mut v = p.clone(); fft::evaluate_poly(&mut v, &tw); v }).collect()
        }
    };
    let tm = ColMatrix::new(trace_cols.clone());
    let interp = match catch(|| (tm.interpolate_columns(), ColMatrix::new(trace_cols.clone()).interpolate_columns_into())) {
        Ok(x) => x,
        Err(pn) => return Err(Fail::new(pn.key(), format!("interpolate_columns panicked: {} ({ctx})", pn.message))),
    };
    for j in 0..cols {
        ensure!(interp.0.get_column(j) == &polys[j][..] && interp.1.get_column(j) == &polys[j][..], "interpolate-columns", "interpolating the values of poly_{j} over the trace domain does not give back its coefficients ({ctx})");
    }
    // row commitments
    let commit = match catch(|| m_over.commit_to_rows::<X::H, MerkleTree<X::H>>(po)) {
        Ok(c) => c,
        Err(pn) => return Err(Fail::new(pn.key(), format!("RowMatrix::commit_to_rows panicked at {}: {} ({ctx})", pn.location, pn.message))),
    };
    let digests: Vec<<X::H as Hasher>::Digest> = (0..lde).map(|i| {
        let x = E::from(offset * g_lde.exp(<X::S as FSpec>::pint(i as u128)));
        // the reference hashes the *naively evaluated* row when it was computed above, else the matrix row (already compared at sampled rows)
        let row: Vec<E> = if lde * cols <= 4096 { (0..cols).map(|j| horner(&polys[j], x)).collect() } else { m_over.row(i).to_vec() };
        ref_row_digest::<X::H, E>(&row, partitions, hash_rate)
    }).collect();
    ensure!(*commit.root() == ref_root::<X::H>(digests), "row-commitment-differs", "RowMatrix::commit_to_rows root differs from the vector commitment of the row digests defined by the verifier's partition rule ({ctx})");
    if lde * cols <= 8192 {
        let cc = match catch(|| cm.commit_to_rows::<X::H, MerkleTree<X::H>>()) {
            Ok(c) => c,
            Err(pn) => return Err(Fail::new(pn.key(), format!("ColMatrix::commit_to_rows panicked: {} ({ctx})", pn.message))),
        };
        let digests: Vec<<X::H as Hasher>::Digest> = (0..lde).map(|i| {
            let row: Vec<E> = (0..cols).map(|j| cm.get(j, i)).collect();
            <X::H as ElementHasher>::hash_elements(&row)
        }).collect();
        ensure!(*cc.root() == ref_root::<X::H>(digests), "col-commitment-differs", "ColMatrix::commit_to_rows root differs from the reference ({ctx})");
    }
    rec.weight = (rows.len() * cols) as u64;
    Ok(())
}
