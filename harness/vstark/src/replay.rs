//! Transcript replay (DESIGN.md 3.3): rebuilds the verifier's public-coin schedule from public API
//! only, so that the harness can act as an adaptive adversary that knows the challenges. The replay
//! is self-validated on the honest proof before any attack is mounted.


use vfield::Spec as FSpec;
use vgen::*;
use vhash::*;
use winter_air::proof::{merge_ood_evaluations, Proof, Queries, Table};
use winter_air::{Air, ProofOptions};
use winter_crypto::{BatchMerkleProof, DefaultRandomCoin, ElementHasher, Hasher, MerkleTree, RandomCoin};
use winter_math::{FieldElement, ToElements};

#[allow(dead_code)]
pub struct Transcript<X: HS, E: FieldElement<BaseField = <X::S as FSpec>::B>> {
    pub trace_roots: Vec<<X::H as Hasher>::Digest>,
    pub constraint_root: <X::H as Hasher>::Digest,
    pub fri_roots: Vec<<X::H as Hasher>::Digest>,
    pub aux_rands: Vec<E>,
    pub z: E,
    pub deep_trace: Vec<E>,
    pub deep_constraints: Vec<E>,
    pub fri_alphas: Vec<E>,
    /// sorted, deduplicated query positions
    pub positions: Vec<usize>,
    pub lde_domain_size: usize,
    pub num_composition_columns: usize,
    pub main_width: usize,
    pub aux_width: usize,
    /// the harness's model of row hashing does not reproduce the honest leaves (see `replay`)
    pub row_hash_model_mismatch: bool,
}

pub fn hash_row<H: ElementHasher<BaseField = E::BaseField>, E: FieldElement>(row: &[E], partition_size: usize) -> H::Digest {
    if partition_size == row.len() {
        H::hash_elements(row)
    } else {
        let parts: Vec<H::Digest> = row.chunks(partition_size).map(|c| H::hash_elements(c)).collect();
        H::merge_many(&parts)
    }
}

pub fn table_rows<E: FieldElement>(t: &Table<E>) -> Vec<Vec<E>> {
    t.rows().map(|r| r.to_vec()).collect()
}

/// Replays the transcript of `proof`; returns an error string when the replay does not reproduce
/// the proof (then no attack is mounted).
pub fn replay<X: HS, E: FieldElement<BaseField = <X::S as FSpec>::B>>(proof: &Proof, spec: &SpecRef, options: &ProofOptions) -> Result<Transcript<X, E>, String> {
    let pub_inputs = PubInputs::<X::S>::new(spec.clone());
    let mut seed = proof.context.to_elements();
    seed.append(&mut pub_inputs.to_elements());
    let air = GenAir::<X::S>::new(proof.trace_info().clone(), pub_inputs, options.clone());
    if air.degenerate {
        return Err("GenAir degenerate".into());
    }
    let mut coin = DefaultRandomCoin::<X::H>::new(&seed);
    let lde = air.lde_domain_size();
    let fri_options = options.to_fri_options();
    let num_layers = fri_options.num_fri_layers(lde);
    let (trace_roots, constraint_root, fri_roots) = proof.commitments.clone().parse::<X::H>(air.trace_info().num_segments(), num_layers).map_err(|e| format!("commitments: {e}"))?;
    coin.reseed(trace_roots[0]);
    let aux_rands: Vec<E> = if air.trace_info().is_multi_segment() {
        let r = air.get_aux_rand_elements::<E, _>(&mut coin).map_err(|e| format!("{e}"))?;
        coin.reseed(trace_roots[1]);
        r.rand_elements().to_vec()
    } else {
        vec![]
    };
    let _cc = air.get_constraint_composition_coefficients::<E, _>(&mut coin).map_err(|e| format!("{e}"))?;
    coin.reseed(constraint_root);
    let z: E = coin.draw().map_err(|e| format!("{e}"))?;
    let cols = air.context().num_constraint_composition_columns();
    let main_width = air.trace_info().main_trace_width();
    let aux_width = air.trace_info().aux_segment_width();
    let (ood_trace, ood_quot) = proof.ood_frame.clone().parse::<E>(main_width, aux_width, cols).map_err(|e| format!("ood: {e}"))?;
    let ood_evals = merge_ood_evaluations(&ood_trace, &ood_quot);
    coin.reseed(<X::H as ElementHasher>::hash_elements(&ood_evals));
    let deep = air.get_deep_composition_coefficients::<E, _>(&mut coin).map_err(|e| format!("{e}"))?;
    let mut fri_alphas = vec![];
    for c in &fri_roots {
        coin.reseed(*c);
        fri_alphas.push(coin.draw::<E>().map_err(|e| format!("{e}"))?);
    }
    if coin.check_leading_zeros(proof.pow_nonce) < options.grinding_factor() {
        return Err("replayed proof-of-work check fails on the honest proof".into());
    }
    let mut positions = coin.draw_integers(options.num_queries(), lde, proof.pow_nonce).map_err(|e| format!("{e}"))?;
    positions.sort_unstable();
    positions.dedup();
    if positions.len() != proof.num_unique_queries as usize {
        return Err(format!("replayed {} unique positions, proof says {}", positions.len(), proof.num_unique_queries));
    }
    let t = Transcript::<X, E> {
        trace_roots,
        constraint_root,
        fri_roots,
        aux_rands,
        z,
        deep_trace: deep.trace.clone(),
        deep_constraints: deep.constraints.clone(),
        fri_alphas,
        positions,
        lde_domain_size: lde,
        num_composition_columns: cols,
        main_width,
        aux_width,
        row_hash_model_mismatch: false,
    };
    // self-validation: the replayed positions must open the honest commitments. The unique-position
    // count was checked above; the opening check below additionally relies on this file's model of
    // row hashing. If only that model disagrees the transcript is still returned (flagged): an attack
    // built on a wrong transcript can only be rejected, so drift costs coverage, never a false alarm.
    let mut t = t;
    let po = options.partition_options();
    let (mp, mt) = parse_queries::<X, <X::S as FSpec>::B>(&proof.trace_queries[0], &t, main_width)?;
    let items: Vec<_> = mt.iter().map(|r| hash_row::<X::H, <X::S as FSpec>::B>(r, po.partition_size::<<X::S as FSpec>::B>(main_width))).collect();
    if MerkleTree::<X::H>::verify_batch(&t.trace_roots[0], &t.positions, &items, &mp).is_err() {
        t.row_hash_model_mismatch = true;
    }
    let (cp, ct) = parse_queries::<X, E>(&proof.constraint_queries, &t, cols)?;
    let items: Vec<_> = ct.iter().map(|r| hash_row::<X::H, E>(r, po.partition_size::<E>(cols))).collect();
    if MerkleTree::<X::H>::verify_batch(&t.constraint_root, &t.positions, &items, &cp).is_err() {
        t.row_hash_model_mismatch = true;
    }
    Ok(t)
}

pub fn parse_queries<X: HS, F: FieldElement<BaseField = <X::S as FSpec>::B>>(q: &Queries, t: &Transcript<X, impl FieldElement<BaseField = <X::S as FSpec>::B>>, width: usize) -> Result<(BatchMerkleProof<X::H>, Vec<Vec<F>>), String> {
    let (p, table) = q.clone().parse::<F, X::H, MerkleTree<X::H>>(t.lde_domain_size, t.positions.len(), width).map_err(|e| format!("queries: {e}"))?;
    Ok((p, table_rows(&table)))
}

pub fn build_queries<X: HS, F: FieldElement<BaseField = <X::S as FSpec>::B>>(proof: BatchMerkleProof<X::H>, rows: Vec<Vec<F>>) -> Queries {
    Queries::new::<X::H, F, MerkleTree<X::H>>(proof, rows)
}
