//! Proof byte-layout map and mutation operators (DESIGN.md 3.4).

use vcore::*;

#[derive(Clone, Copy, Debug, PartialEq, Eq)]
pub enum FK {
    U8,
    U16,
    U32,
    U64,
    Vint,
    Bytes,
}

#[derive(Clone, Debug)]
pub struct Field {
    pub off: usize,
    pub len: usize,
    pub label: &'static str,
    pub kind: FK,
}

struct W<'a> {
    b: &'a [u8],
    pos: usize,
    out: Vec<Field>,
}
impl W<'_> {
    fn take(&mut self, n: usize, label: &'static str, kind: FK) -> Option<u64> {
        let s = self.b.get(self.pos..self.pos + n)?;
        let mut v = [0u8; 8];
        let k = n.min(8);
        v[..k].copy_from_slice(&s[..k]);
        self.out.push(Field { off: self.pos, len: n, label, kind });
        self.pos += n;
        Some(u64::from_le_bytes(v))
    }
    fn vint(&mut self, label: &'static str) -> Option<u64> {
        let first = *self.b.get(self.pos)?;
        let len = (first.trailing_zeros() as usize + 1).min(9);
        let s = self.b.get(self.pos..self.pos + len)?;
        let val = if len == 9 {
            u64::from_le_bytes(s[1..9].try_into().ok()?)
        } else {
            let mut v = [0u8; 8];
            v[..len].copy_from_slice(s);
            u64::from_le_bytes(v) >> len
        };
        self.out.push(Field { off: self.pos, len, label, kind: FK::Vint });
        self.pos += len;
        Some(val)
    }
    fn bytes(&mut self, n: usize, label: &'static str) -> Option<()> {
        self.b.get(self.pos..self.pos + n)?;
        if n > 0 {
            self.out.push(Field { off: self.pos, len: n, label, kind: FK::Bytes });
        }
        self.pos += n;
        Some(())
    }
    /// BatchMerkleProof inside a byte blob that starts at the current position and is `total` bytes long
    fn batch_proof(&mut self, total: usize, digest_len: usize) -> Option<()> {
        let end = self.pos + total;
        self.take(1, "batch_proof.depth", FK::U8)?;
        let nv = self.vint("batch_proof.num_node_vectors")?;
        for _ in 0..nv {
            let n = self.vint("batch_proof.num_nodes")?;
            self.bytes(n as usize * digest_len, "batch_proof.nodes")?;
        }
        if self.pos != end {
            return None;
        }
        Some(())
    }
    fn queries(&mut self, digest_len: usize, lv: &'static str, lp: &'static str) -> Option<()> {
        let n = self.vint(lv)?;
        self.bytes(n as usize, "queries.values")?;
        let p = self.vint(lp)?;
        self.batch_proof(p as usize, digest_len)
    }
}

/// Maps the encoding of an honest proof into labelled fields. `digest_len` is the serialized digest size.
pub fn map_proof(bytes: &[u8], digest_len: usize) -> Option<Vec<Field>> {
    let mut w = W { b: bytes, pos: 0, out: vec![] };
    w.take(1, "trace_info.main_width", FK::U8)?;
    let aux = w.take(1, "trace_info.aux_width", FK::U8)?;
    w.take(1, "trace_info.aux_rands", FK::U8)?;
    w.take(1, "trace_info.log_length", FK::U8)?;
    let ml = w.take(2, "trace_info.meta_len", FK::U16)?;
    w.bytes(ml as usize, "trace_info.meta")?;
    let modl = w.take(1, "context.modulus_len", FK::U8)?;
    w.bytes(modl as usize, "context.modulus")?;
    for l in ["options.queries", "options.blowup", "options.grinding", "options.extension", "options.folding", "options.remainder_degree", "options.batching_constraints", "options.batching_deep", "options.partitions", "options.hash_rate"] {
        w.take(1, l, FK::U8)?;
    }
    w.vint("context.num_constraints")?;
    w.take(1, "num_unique_queries", FK::U8)?;
    let cl = w.take(2, "commitments.len", FK::U16)?;
    w.bytes(cl as usize, "commitments.digests")?;
    w.queries(digest_len, "trace_queries.values_len", "trace_queries.paths_len")?;
    if aux > 0 {
        w.queries(digest_len, "aux_queries.values_len", "aux_queries.paths_len")?;
    }
    w.queries(digest_len, "constraint_queries.values_len", "constraint_queries.paths_len")?;
    let tl = w.take(2, "ood.trace_len", FK::U16)?;
    if tl > 0 {
        w.take(1, "ood.trace_frame_size", FK::U8)?;
        w.bytes(tl as usize - 1, "ood.trace_states")?;
    }
    let ql = w.take(2, "ood.quotient_len", FK::U16)?;
    if ql > 0 {
        w.take(1, "ood.quotient_frame_size", FK::U8)?;
        w.bytes(ql as usize - 1, "ood.quotient_states")?;
    }
    let nl = w.take(1, "fri.num_layers", FK::U8)?;
    for _ in 0..nl {
        let vl = w.take(4, "fri.layer_values_len", FK::U32)?;
        w.bytes(vl as usize, "fri.layer_values")?;
        let pl = w.take(4, "fri.layer_paths_len", FK::U32)?;
        w.batch_proof(pl as usize, digest_len)?;
    }
    let rl = w.take(2, "fri.remainder_len", FK::U16)?;
    w.bytes(rl as usize, "fri.remainder")?;
    w.take(1, "fri.num_partitions", FK::U8)?;
    w.take(8, "pow_nonce", FK::U64)?;
    if w.pos != bytes.len() {
        return None;
    }
    Some(w.out)
}

fn write_le(bytes: &mut [u8], off: usize, len: usize, v: u64) {
    bytes[off..off + len].copy_from_slice(&v.to_le_bytes()[..len]);
}
fn read_le(bytes: &[u8], off: usize, len: usize) -> u64 {
    let mut v = [0u8; 8];
    v[..len.min(8)].copy_from_slice(&bytes[off..off + len.min(8)]);
    u64::from_le_bytes(v)
}

pub fn vint_encode(v: u64, force9: bool) -> Vec<u8> {
    let bits = 64 - v.leading_zeros() as usize;
    let len = if bits <= 7 { 1 } else if bits > 56 { 9 } else { bits.div_ceil(7) };
    if len == 9 || force9 {
        let mut out = vec![0u8];
        out.extend_from_slice(&v.to_le_bytes());
        out
    } else {
        let enc: u128 = ((v as u128) << len) | (1u128 << (len - 1));
        enc.to_le_bytes()[..len].to_vec()
    }
}

/// Applies one generated mutation; returns a short description (operator name first).
pub fn mutate(s: &mut Src, bytes: &mut Vec<u8>, fields: &[Field], other: Option<&(Vec<u8>, Vec<Field>)>, elem_bytes: usize) -> String {
    let op = s.weighted(&[6, 6, 4, 3, 22, 4, 3, 3, 3, 3, 2, 3, 6, 4]);
    match op {
        0 => {
            let i = s.below(bytes.len() as u64) as usize;
            let bit = s.below(8);
            bytes[i] ^= 1 << bit;
            format!("bit_flip at {i} (bit {bit})")
        },
        1 => {
            let i = s.below(bytes.len() as u64) as usize;
            let old = bytes[i];
            bytes[i] = s.u8();
            if bytes[i] == old {
                bytes[i] = old.wrapping_add(1);
            }
            format!("byte_substitution at {i}")
        },
        2 => {
            let cut = s.below(bytes.len() as u64) as usize;
            bytes.truncate(cut);
            format!("truncation to {cut} bytes")
        },
        3 => {
            let a = s.below(bytes.len() as u64) as usize;
            let l = s.range(1, 64.min((bytes.len() - a) as u64)) as usize;
            let span = bytes[a..a + l].to_vec();
            let at = s.below(bytes.len() as u64 + 1) as usize;
            bytes.splice(at..at, span);
            format!("span_duplication of {l} bytes from {a} inserted at {at}")
        },
        4 => {
            // field edit with a value dictionary
            let numeric: Vec<&Field> = fields.iter().filter(|f| f.kind != FK::Bytes).collect();
            let f = *s.pick(&numeric);
            let cur = if f.kind == FK::Vint {
                if f.len >= 9 {
                    read_le(bytes, f.off + 1, 8)
                } else {
                    read_le(bytes, f.off, f.len) >> f.len
                }
            } else {
                read_le(bytes, f.off, f.len)
            };
            let max = if f.len >= 8 { u64::MAX } else { (1u64 << (8 * f.len)) - 1 };
            let v: u64 = match s.below(if f.len >= 8 { 14 } else { 12 }) {
                // 64-bit fields (the nonce): the same value shifted by a field modulus
                12 => cur.wrapping_add(0xffff_ffff_0000_0001),
                13 => cur.wrapping_add(4611624995532046337),
                0 => 0,
                1 => 1,
                2 => max,
                3 => cur.wrapping_add(1) & max,
                4 => cur.wrapping_sub(1) & max,
                5 => 254 & max,
                6 => 255 & max,
                7 => (1u64 << 62) & max,
                8 => 64 & max,
                9 => 63 & max,
                10 => s.below(max.min(1 << 20).max(1)) & max,
                _ => s.u64() & max,
            };
            if f.kind == FK::Vint {
                let v = match s.below(7) {
                    0 => v,
                    1 => 1 << 62,
                    2 => u32::MAX as u64,
                    // the same value modulo 2^32 / 2^16 / 2^8 (narrowing conversions downstream)
                    3 => cur.wrapping_add(1 << 32),
                    4 => cur.wrapping_add(s.pick_copy(&[1u64 << 8, 1 << 16, 1 << 33, 1 << 40])),
                    _ => s.below(1 << 16),
                };
                let enc = vint_encode(v, s.chance(1, 4));
                bytes.splice(f.off..f.off + f.len, enc);
                format!("field_edit {} := vint {v}", f.label)
            } else {
                write_le(bytes, f.off, f.len, v);
                format!("field_edit {} := {v}", f.label)
            }
        },
        5 => {
            // byte-range field: change one element / digest inside
            let blobs: Vec<&Field> = fields.iter().filter(|f| f.kind == FK::Bytes).collect();
            let f = *s.pick(&blobs);
            let i = f.off + s.below(f.len as u64) as usize;
            bytes[i] = bytes[i].wrapping_add(1 + s.below(255) as u8);
            format!("blob_edit in {} at {i}", f.label)
        },
        6 => {
            // append one more query row to a FRI layer and fix the length prefix (consistent multi-site edit)
            let lens: Vec<usize> = fields.iter().enumerate().filter(|(_, f)| f.label == "fri.layer_values_len").map(|(i, _)| i).collect();
            if lens.is_empty() {
                let i = s.below(bytes.len() as u64) as usize;
                bytes[i] ^= 0x80;
                return format!("bit_flip at {i} (bit 7)");
            }
            let fi = *s.pick(&lens);
            let lf = &fields[fi];
            let vf = &fields[fi + 1];
            // one more row (folding factor x element bytes, passed in as `elem_bytes`): a copy of the layer's first row
            let copy = elem_bytes.min(vf.len);
            let extra: Vec<u8> = bytes[vf.off..vf.off + copy].to_vec();
            let new_len = vf.len + extra.len();
            let at = vf.off + vf.len;
            bytes.splice(at..at, extra.clone());
            write_le(bytes, lf.off, 4, new_len as u64);
            format!("fri_extra_row: {} bytes appended to a FRI layer's values, length prefix fixed", extra.len())
        },
        7 => {
            // append one more digest to a node vector of a batch Merkle proof and fix the node count and the
            // enclosing byte-length prefix (consistent multi-site edit: the proof stays well-formed)
            let cands: Vec<usize> = fields
                .iter()
                .enumerate()
                .filter(|(i, f)| f.label == "batch_proof.num_nodes" && f.len == 1 && (1..120).contains(&(bytes[f.off] >> 1)) && fields.get(i + 1).map(|n| n.label == "batch_proof.nodes").unwrap_or(false))
                .map(|(i, _)| i)
                .collect();
            if cands.is_empty() {
                let i = s.below(bytes.len() as u64) as usize;
                bytes[i] ^= 1;
                return format!("bit_flip at {i} (bit 0)");
            }
            let fi = *s.pick(&cands);
            let (cf, nf) = (&fields[fi], &fields[fi + 1]);
            let cnt = (bytes[cf.off] >> 1) as usize;
            let dl = nf.len / cnt;
            let extra: Vec<u8> = if s.bool() { bytes[nf.off..nf.off + dl].to_vec() } else { s.bytes(dl) };
            // enclosing length prefix: the closest preceding "...paths_len" field
            let lf = fields[..fi].iter().rev().find(|f| f.label.ends_with("paths_len")).unwrap();
            let at = nf.off + nf.len;
            bytes.splice(at..at, extra);
            bytes[cf.off] = (((cnt + 1) << 1) | 1) as u8;
            if lf.kind == FK::Vint {
                let mut v = [0u8; 8];
                v[..lf.len.min(8)].copy_from_slice(&bytes[lf.off..lf.off + lf.len.min(8)]);
                let val = u64::from_le_bytes(v) >> lf.len;
                bytes.splice(lf.off..lf.off + lf.len, vint_encode(val + dl as u64, false));
            } else {
                let cur = read_le(bytes, lf.off, lf.len);
                write_le(bytes, lf.off, lf.len, cur + dl as u64);
            }
            format!("batch_proof_extra_node: one digest appended to a node vector of {cnt} ({}), count and {} fixed", nf.label, lf.label)
        },
        8 => {
            // re-encode a vint non-minimally (semantically identical)
            let vints: Vec<&Field> = fields.iter().filter(|f| f.kind == FK::Vint && f.len < 9).collect();
            let f = *s.pick(&vints);
            let mut v = [0u8; 8];
            v[..f.len].copy_from_slice(&bytes[f.off..f.off + f.len]);
            let val = u64::from_le_bytes(v) >> f.len;
            bytes.splice(f.off..f.off + f.len, vint_encode(val, true));
            format!("vint_nonminimal {} (value {val} as 9 bytes)", f.label)
        },
        9 => {
            let n = s.range(1, 16) as usize;
            let extra = s.bytes(n);
            bytes.extend_from_slice(&extra);
            format!("trailing_bytes +{n}")
        },
        10 => {
            let f = fields.iter().find(|f| f.label == "fri.num_partitions").unwrap();
            bytes[f.off] = match s.below(4) {
                0 => 1,
                1 => 63,
                2 => 64,
                _ => s.u8(),
            };
            format!("fri_num_partitions := {}", bytes[f.off])
        },
        12 => {
            // a header field replaced by another VALID value of its own domain: the proof stays
            // decodable but no longer matches its contents (fewer / more FRI layers than implied,
            // other domain sizes, other extension, other query count ...)
            let labels = [
                "options.queries", "options.blowup", "options.grinding", "options.extension", "options.folding",
                "options.remainder_degree", "options.batching_constraints", "options.batching_deep", "options.partitions",
                "options.hash_rate", "trace_info.log_length", "trace_info.main_width", "trace_info.aux_width",
                "trace_info.aux_rands", "num_unique_queries",
            ];
            let label = *s.pick(&labels);
            let f = fields.iter().find(|f| f.label == label).unwrap();
            let cur = bytes[f.off];
            let v: u8 = match label {
                "options.queries" | "num_unique_queries" => s.range(1, 255) as u8,
                "options.blowup" => 1 << s.range(1, 7),
                "options.grinding" => s.range(0, 32) as u8,
                "options.extension" => s.range(1, 3) as u8,
                "options.folding" => 1 << s.range(1, 4),
                "options.remainder_degree" => ((1u16 << s.range(0, 8)) - 1) as u8,
                "options.batching_constraints" | "options.batching_deep" => s.range(0, 2) as u8,
                "options.partitions" => s.range(1, 16) as u8,
                "options.hash_rate" => s.range(1, 255) as u8,
                "trace_info.log_length" => match s.below(3) {
                    0 => cur.wrapping_add(1),
                    1 => cur.wrapping_sub(1),
                    _ => s.range(3, 40) as u8,
                },
                _ => s.range(0, 255) as u8,
            };
            bytes[f.off] = if v == cur { cur ^ 1 } else { v };
            format!("valid_header_value {label} := {}", bytes[f.off])
        },
        13 => {
            // remove or duplicate one whole FRI layer and fix the layer count
            let starts: Vec<usize> = fields.iter().filter(|f| f.label == "fri.layer_values_len").map(|f| f.off).collect();
            let nl = fields.iter().find(|f| f.label == "fri.num_layers").unwrap().off;
            let end = fields.iter().find(|f| f.label == "fri.remainder_len").unwrap().off;
            if starts.is_empty() {
                bytes[nl] = 1 + s.below(3) as u8;
                return format!("fri_layer_count := {} without layers", bytes[nl]);
            }
            let k = s.below(starts.len() as u64) as usize;
            let a = starts[k];
            let b = if k + 1 < starts.len() { starts[k + 1] } else { end };
            if s.bool() {
                bytes.drain(a..b);
                bytes[nl] -= 1;
                format!("fri_layer_removed #{k} of {}", starts.len())
            } else {
                let copy = bytes[a..b].to_vec();
                bytes.splice(b..b, copy);
                bytes[nl] += 1;
                format!("fri_layer_duplicated #{k} of {}", starts.len())
            }
        },
        _ => {
            // cross-proof splice: copy one field of another honest proof of the same AIR
            match other {
                Some((ob, of)) => {
                    let f = s.pick(fields);
                    match of.iter().find(|g| g.label == f.label && g.len == f.len) {
                        Some(g) => {
                            let src = ob[g.off..g.off + g.len].to_vec();
                            bytes[f.off..f.off + f.len].copy_from_slice(&src);
                            format!("cross_proof_splice of {}", f.label)
                        },
                        None => {
                            let i = s.below(bytes.len() as u64) as usize;
                            bytes[i] ^= 4;
                            format!("bit_flip at {i} (bit 2)")
                        },
                    }
                },
                None => {
                    let i = s.below(bytes.len() as u64) as usize;
                    bytes[i] ^= 8;
                    format!("bit_flip at {i} (bit 3)")
                },
            }
        },
    }
}
