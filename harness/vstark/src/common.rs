//! Shared end-to-end plumbing: prove / verify wrappers for GenAir over any hasher instance.

use std::sync::Arc;

use vcore::*;
use vfield::Spec as FSpec;
use vgen::gen::{gen_instance, GenCfg, Instance};
use vgen::options::{gen_options, OptSpec};
use vgen::*;
use vhash::*;
use winter_air::proof::Proof;
use winter_air::ProofOptions;
use winter_crypto::{DefaultRandomCoin, MerkleTree};
use winter_prover::Prover;
use winter_verifier::{verify, AcceptableOptions, VerifierError};

pub struct Case<X: HS> {
    pub spec: SpecRef,
    pub main: Vec<Vec<<X::S as FSpec>::B>>,
    pub opt: OptSpec,
    pub options: ProofOptions,
}

pub fn gen_case<X: HS>(s: &mut Src, cfg: &GenCfg, max_lde: usize, rec: &mut Rec) -> Case<X> {
    let Instance { spec, main, .. } = gen_instance::<X::S>(s, cfg, rec);
    let cube_ok = <X::S as FSpec>::CUBE.is_some();
    let opt = gen_options(s, spec.trace_len, spec.min_blowup(), max_lde, cube_ok, rec);
    let options = opt.build();
    Case { spec: Arc::new(spec), main, opt, options }
}

pub enum ProveOutcome {
    Proof(Box<Proof>),
    Error(String),
    Panic(PanicInfo),
}

pub fn prove_with<X: HS>(prover: &GenProver<X>, main: Vec<Vec<<X::S as FSpec>::B>>) -> ProveOutcome
where
    X::H: Send + Sync,
{
    let trace = GenTrace::<X::S>::new(&prover.spec, main);
    match catch(|| prover.prove(trace)) {
        Ok(Ok(p)) => ProveOutcome::Proof(Box::new(p)),
        Ok(Err(e)) => ProveOutcome::Error(format!("{e}")),
        Err(pn) => ProveOutcome::Panic(pn),
    }
}

pub fn prove<X: HS>(spec: &SpecRef, options: &ProofOptions, main: Vec<Vec<<X::S as FSpec>::B>>) -> ProveOutcome
where
    X::H: Send + Sync,
{
    prove_with(&GenProver::<X>::new(spec.clone(), options.clone()), main)
}

pub enum VerifyOutcome {
    Accept,
    Reject(VerifierError),
    Panic(PanicInfo),
}

pub fn verify_with<X: HS>(proof: Proof, spec: &SpecRef, acceptable: &AcceptableOptions) -> VerifyOutcome {
    let pub_inputs = PubInputs::<X::S>::new(spec.clone());
    match catch(|| verify::<GenAir<X::S>, X::H, DefaultRandomCoin<X::H>, MerkleTree<X::H>>(proof, pub_inputs, acceptable)) {
        Ok(Ok(())) => VerifyOutcome::Accept,
        Ok(Err(e)) => VerifyOutcome::Reject(e),
        Err(pn) => VerifyOutcome::Panic(pn),
    }
}

pub fn verify_proof<X: HS>(proof: Proof, spec: &SpecRef, options: &ProofOptions) -> VerifyOutcome {
    verify_with::<X>(proof, spec, &AcceptableOptions::OptionSet(vec![options.clone()]))
}

pub fn err_name(e: &VerifierError) -> String {
    format!("{e:?}").split('(').next().unwrap().to_string()
}
