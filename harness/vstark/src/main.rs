//! C01-C05, C07, C22, C28, C29: end-to-end STARK properties over GenAir.

use vcore::*;

mod common;
mod c01;
mod c02;
mod c03;
mod c04;
mod c05;
mod mutate;
mod view;
mod replay;
mod c07;
mod c28;
mod c29;

fn main() {
    vref::field::startup_selfcheck();
    main_with(vec![c01::prop(), c02::prop(), c03::prop(), c04::prop(), c05::prop(), c07::prop(), c28::prop(), c29::prop()]);
}
