fn main() {
    vcore::main_with(vstark::props());
}
