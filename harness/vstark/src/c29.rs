//! C29 — trace validation agrees with an independent constraint checker; table constructors agree.

use std::sync::Arc;

use vcore::*;
use vfield::{gen_elem, Mix, Spec as FSpec, F128, F62, F64, Q};
use vgen::checker::{check_trace, Violation};
use vgen::gen::{gen_instance, GenCfg, Instance};
use vgen::trace::build_aux;
use vgen::{GenAir, GenTrace, PubInputs};
use winter_air::{Air, AuxRandElements, BatchingMethod, EvaluationFrame, FieldExtension, ProofOptions, TraceInfo};
use winter_math::FieldElement;
use winter_prover::matrix::ColMatrix;
use winter_prover::{AuxTraceWithMetadata, Trace, TraceTable};

pub fn prop() -> Prop {
    Prop {
        id: "C29",
        level: "fault_enumeration",
        rule: "fault cases = GenAir instance (periodic columns, exemptions 1..bound, optional auxiliary segment, all assertion kinds) with its satisfying trace, unmodified or with one cell changed at a step of a chosen class: first row, interior, n-k-1 and n-k (both sides of the last enforced transition), exempt rows, an asserted cell of each assertion kind, an auxiliary cell, an auxiliary asserted cell. Oracle (both directions): Trace::validate panics <=> the independent checker reports a violation; in particular changes confined to exempt, unasserted cells must be accepted. Table cases = a generated cell matrix built by fill, by init(columns), by fragments(2^j).fill for every j, by update_row and by set: equal cells, equal main_segment and equal read_main_frame (including the wrap-around at the last row). Non-trivial = a fault case where the checker's verdict is 'violated' by exactly one constraint or assertion, or an accepted change of an exempt cell; distinct = hash of (spec, fault).",
        assumptions: vec![
            "the independent checker (vgen::checker) evaluates the spec directly: periodic values by index, assertion cells by enumeration, transitions for s < n - k with the next row at s + 1",
            "Trace::validate is a provided trait method called directly (the prover only calls it in debug builds)",
        ],
        subs: vec![Sub::gen("validate", validate, 400, 24_000, 600_000), Sub::gen("tables", tables, 64, 6_000, 150_000)],
        required: vec!["class:first", "class:interior", "class:last_enforced", "class:first_exempt_row", "class:exempt", "class:asserted_cell", "class:aux_cell", "class:aux_asserted", "class:unmodified", "verdict:violated", "verdict:accepted_after_change", "aux_segment", "periodic_dependent_constraint", "exactly_one_violation"],
        required_thorough: vec![],
    }
}

fn validate(s: &mut Src, rec: &mut Rec) -> CaseResult {
    match s.below(3) {
        0 => run::<F62>(s, rec),
        1 => run::<F64>(s, rec),
        _ => run::<F128>(s, rec),
    }
}

fn run<S: FSpec>(s: &mut Src, rec: &mut Rec) -> CaseResult {
    let mut cfg = GenCfg::small();
    cfg.max_log_n = 7;
    cfg.max_width = 6;
    let Instance { spec, mut main, .. } = gen_instance::<S>(s, &cfg, rec);
    let n = spec.trace_len;
    let k = spec.exemptions;
    type E<S> = Q<<S as FSpec>::B>;
    let has_aux = !spec.aux.is_empty();
    let rands: Vec<E<S>> = (0..spec.num_rands).map(|_| gen_elem::<S, E<S>>(s).0).collect();
    let garbage = if s.bool() { 0 } else { s.u64() | 1 };
    let mut aux: Vec<Vec<E<S>>> = if has_aux { build_aux::<S, E<S>>(&spec, &main, &rands, garbage) } else { vec![] };
    // the fault
    let class = s.below(9);
    let cname = ["unmodified", "first", "interior", "last_enforced", "first_exempt_row", "exempt", "asserted_cell", "aux_cell", "aux_asserted"][class as usize];
    let col = s.below(spec.main_width as u64) as usize;
    let mut changed = true;
    let mut what = String::new();
    match class {
        0 => changed = false,
        1..=5 => {
            let step = match class {
                1 => 0,
                2 => s.range(1, (n - k).max(2) as u64 - 1) as usize,
                3 => n - k - 1,
                4 => n - k,
                _ => {
                    if k < 2 {
                        // no unconstrained row exists: fall back to the first exempt row
                        n - k
                    } else {
                        s.range((n - k + 1) as u64, (n - 1) as u64) as usize
                    }
                },
            };
            main[col][step] += S::B::ONE;
            what = format!("main[{col}][{step}] += 1");
        },
        6 => {
            let a = s.pick(&spec.assertions).clone();
            let steps = a.steps(n);
            let st = *s.pick(&steps);
            main[a.column][st] += S::B::ONE;
            what = format!("asserted cell main[{}][{st}] += 1 (assertion kind {})", a.column, a.kind);
        },
        7 => {
            if has_aux {
                let c = s.below(aux.len() as u64) as usize;
                let st = match s.below(4) {
                    0 => 0,
                    1 => n - k,
                    2 => n - 1,
                    _ => s.below(n as u64) as usize,
                };
                aux[c][st] += E::<S>::ONE;
                what = format!("aux[{c}][{st}] += 1");
            } else {
                changed = false;
            }
        },
        _ => {
            if has_aux && !spec.aux_assertions.is_empty() {
                let a = s.pick(&spec.aux_assertions).clone();
                aux[a.column][a.first] += E::<S>::ONE;
                what = format!("asserted cell aux[{}][{}] += 1", a.column, a.first);
            } else {
                changed = false;
            }
        },
    }
    let cname = if changed { cname } else { "unmodified" };
    rec.class(&format!("class:{cname}"));
    rec.set_fp(&(spec.fingerprint(), cname, &what, garbage));
    rec.describe(|| json!({"spec": spec.describe(), "fault": what, "class": cname}));
    let viol = check_trace::<S, E<S>>(&spec, &main, if has_aux { Some((&aux, &rands)) } else { None }, 4);
    let expect_panic = !viol.is_empty();
    rec.class(if expect_panic { "verdict:violated" } else if changed { "verdict:accepted_after_change" } else { "verdict:accepted" });
    if viol.len() == 1 {
        rec.class("exactly_one_violation");
        rec.nontrivial();
    }
    if !expect_panic && changed {
        rec.nontrivial();
    }
    // winterfell's validation
    let spec = Arc::new(spec);
    let options = ProofOptions::new(1, spec.min_blowup(), 0, FieldExtension::Quadratic, 2, 0, BatchingMethod::Linear, BatchingMethod::Linear);
    let info = TraceInfo::new_multi_segment(spec.main_width, spec.aux.len(), spec.num_rands, n, spec.meta.clone());
    let air = GenAir::<S>::new(info, PubInputs::new(spec.clone()), options);
    if air.degenerate {
        return Err(Fail::new("harness-genair-degenerate", "GenAir rejected a generated spec".to_string()));
    }
    let trace = GenTrace::<S>::new(&spec, main);
    let meta = if has_aux { Some(AuxTraceWithMetadata { aux_trace: ColMatrix::new(aux), aux_rand_elements: AuxRandElements::new(rands.clone()) }) } else { None };
    let r = catch(|| trace.validate::<GenAir<S>, E<S>>(&air, meta.as_ref()));
    let panicked = r.is_err();
    if panicked != expect_panic {
        let why = match &r {
            Err(pn) => pn.message.clone(),
            Ok(()) => "returned".to_string(),
        };
        return Err(Fail::new(
            if panicked { "validate-rejects-valid-trace" } else { "validate-accepts-invalid-trace" },
            format!("{}: Trace::validate {} ({why}) but the independent checker says the trace is {} (fault: {what}; first violation {:?}; spec {})", S::NAME, if panicked { "panicked" } else { "returned normally" }, if expect_panic { "INVALID" } else { "valid" }, viol.first(), spec.describe()),
        ));
    }
    // when both reject, they should point at the same kind of failure
    if let (Err(pn), Some(v)) = (&r, viol.first()) {
        let is_assert = pn.message.contains("assertion");
        let want_assert = matches!(v, Violation::Assertion { .. });
        rec.class(if is_assert == want_assert || viol.len() > 1 { "same_failure_kind" } else { "different_failure_kind_reported_first" });
    }
    Ok(())
}

fn tables(s: &mut Src, rec: &mut Rec) -> CaseResult {
    type B = <F64 as FSpec>::B;
    let width = s.range(1, 12) as usize;
    let log_n = s.range(3, 11) as u32;
    let n = 1usize << log_n;
    let mut mix = Mix(s.u64());
    let target: Vec<Vec<B>> = (0..width).map(|_| (0..n).map(|_| F64::from_int(mix.int::<F64>())).collect()).collect();
    rec.set_fp(&(width, n, mix.0));
    rec.describe(|| json!({"width": width, "length": n}));
    rec.nontrivial = n >= 16;
    let row = |r: usize| -> Vec<B> { target.iter().map(|c| c[r]).collect() };
    let mut tables: Vec<(String, TraceTable<B>)> = vec![];
    // fill
    let mut t = TraceTable::<B>::new(width, n);
    t.fill(|st| st.copy_from_slice(&row(0)), |i, st| st.copy_from_slice(&row(i + 1)));
    tables.push(("fill".into(), t));
    // init
    tables.push(("init".into(), TraceTable::<B>::init(target.clone())));
    // fragments of every power-of-two length
    let min_frag = 2usize;
    let mut fl = min_frag;
    while fl <= n {
        let mut t = TraceTable::<B>::new(width, n);
        let r = catch(|| {
            t.fragments(fl).for_each(|mut frag| {
                let off = frag.offset();
                frag.fill(|st| st.copy_from_slice(&row(off)), |i, st| st.copy_from_slice(&row(off + i + 1)));
            });
        });
        match r {
            Ok(()) => tables.push((format!("fragments({fl})"), t)),
            Err(pn) => {
                // a documented minimum fragment length is a rejection, not a failure
                rec.class(&format!("fragments_rejected:{}", pn.message.chars().take(40).collect::<String>()));
            },
        }
        fl *= 2;
    }
    // update_row and set
    let mut t = TraceTable::<B>::new(width, n);
    for r in 0..n {
        t.update_row(r, &row(r));
    }
    tables.push(("update_row".into(), t));
    let mut t = TraceTable::<B>::new(width, n);
    for c in 0..width {
        for r in 0..n {
            t.set(c, r, target[c][r]);
        }
    }
    tables.push(("set".into(), t));
    for (name, t) in &tables {
        ensure!(t.width() == width && t.length() == n, format!("table-shape:{name}"), "{name}: table has shape {}x{}", t.width(), t.length());
        for c in 0..width {
            ensure!(t.get_column(c) == &target[c][..] && t.main_segment().get_column(c) == &target[c][..], format!("table-cells-differ:{}", name.split('(').next().unwrap()), "table built by {name} ({width} x {n}) differs from the requested cells in column {c}");
        }
        let mut frame = EvaluationFrame::<B>::new(width);
        for r in [0usize, 1, n / 2, n - 2, n - 1] {
            t.read_main_frame(r, &mut frame);
            ensure!(frame.current() == &row(r)[..] && frame.next() == &row((r + 1) % n)[..], format!("read_main_frame:{}", name.split('(').next().unwrap()), "{name}: read_main_frame({r}) of a {width} x {n} table returned wrong rows (the frame after the last row wraps to row 0)");
        }
        let mut buf = vec![B::ZERO; width];
        t.read_row_into(n - 1, &mut buf);
        ensure!(buf == row(n - 1) && t.get(width - 1, n - 1) == target[width - 1][n - 1], format!("table-accessors:{name}"), "{name}: read_row_into / get wrong");
    }
    rec.weight = tables.len() as u64;
    Ok(())
}
