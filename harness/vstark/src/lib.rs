//! C01-C05, C07, C28, C29: end-to-end STARK properties over GenAir.

use vcore::*;

pub mod common;
pub mod craft;
pub mod examples;
pub mod c01;
pub mod c02;
pub mod c03;
pub mod c04;
pub mod c05;
pub mod mutate;
pub mod view;
pub mod replay;
pub mod c07;
pub mod c28;
pub mod c29;

pub fn props() -> Vec<Prop> {
    vref::field::startup_selfcheck();
    vec![c01::prop(), c02::prop(), c03::prop(), c04::prop(), c05::prop(), c07::prop(), c28::prop(), c29::prop()]
}
