//! C07 — protocol objects survive serialization round trips.

use std::fmt::Debug;

use vcore::*;
use vfield::{gen_elem, Mix, Spec as FSpec, C, Q};
use vgen::gen::GenCfg;
use vgen::options::OptSpec;
use vhash::*;
use winter_air::proof::{Commitments, Context, OodFrame, Proof, Queries, QuotientOodFrame, TraceOodFrame};
use winter_air::{ProofOptions, TraceInfo};
use winter_crypto::{BatchMerkleProof, Hasher, MerkleTree};
use winter_math::FieldElement;
use winter_utils::{ByteReader, Deserializable, Serializable, SliceReader};

use crate::common::*;

pub fn prop() -> Prop {
    Prop {
        id: "C07",
        level: "exploration",
        rule: "case = a value of one protocol type that its public constructor accepted (the constructor is called under catch_unwind: a value belongs to the domain iff the constructor returns): TraceInfo (main 1..255, aux 0..254, total <= 255 incl. = 255; random elements 0..255; length 2^3..2^62; metadata length in {0,1,6,7,8,255,256,65534,65535} + random), ProofOptions (every field, partitions 1..16 x hash rate 1..256 offered), Context, Commitments (0..40 FRI roots, every digest type), Queries (1..255 rows x 1..255 values with real batch openings), OodFrame (via its setters), BatchMerkleProof (from prove_batch), every digest type, and whole proofs of GenAir instances. Oracle: T::read_from(SliceReader(to_bytes(v))) = v with no bytes left over; parsed components return the original tables / openings / rows; a decoded proof receives the same verdict as the original (honest inputs: accept, perturbed public inputs: reject). Non-trivial = the value differs from the type's default / dummy; distinct = hash of (type, encoding).",
        assumptions: vec![
            "constructor acceptance is the domain gate: values the constructor rejects (e.g. hash rate 256 after the fix recorded in known_findings.json) are counted as 'offered_rejected' and not round-tripped",
            "FriProof round trips are exercised by C08 (real FRI runs, every folding factor and field); they are repeated here only as part of whole proofs",
        ],
        subs: vec![
            Sub::gen("trace_info", trace_info, 32, 40_000, 1_000_000),
            Sub::gen("options_context", options_context, 48, 40_000, 1_000_000),
            Sub::gen("components", components, 160, 6_000, 300_000),
            Sub::gen("proofs", proofs, 400, 600, 30_000),
        ],
        required: vec!["trace_width_255", "meta_65535", "hash_rate_256_offered", "aux_zero_rands_offered", "rands_255", "type:Commitments", "type:Queries", "type:OodFrame", "type:BatchMerkleProof", "type:digest", "queries_255_rows", "proof_verdict_reject_both", "digest:Rp62_248", "digest:Blake3_192<f64>"],
        required_thorough: vec![],
    }
}

fn roundtrip<T: Serializable + Deserializable + PartialEq + Debug>(what: &str, v: &T) -> CaseResult {
    let bytes = match catch(|| v.to_bytes()) {
        Ok(b) => b,
        Err(pn) => return Err(Fail::new(format!("encode-{}:{what}", pn.key()), format!("{what}: to_bytes panicked on a constructor-accepted value: {}", pn.message))),
    };
    let r = catch(|| {
        let mut rd = SliceReader::new(&bytes);
        let d = T::read_from(&mut rd);
        (d, rd.has_more_bytes())
    });
    match r {
        Err(pn) => Err(Fail::new(format!("decode-{}:{what}", pn.key()), format!("{what}: read_from panicked on the encoding of a constructor-accepted value: {} at {}", pn.message, pn.location))),
        Ok((Err(e), _)) => Err(Fail::new(format!("roundtrip-rejected:{what}"), format!("{what}: the encoding of a constructor-accepted value does not decode: {e} (value {:?})", DebugTrunc(v)))),
        Ok((Ok(d), more)) => {
            ensure!(d == *v, format!("roundtrip-differs:{what}"), "{what}: decoded value differs from the original: {:?} vs {:?}", DebugTrunc(&d), DebugTrunc(v));
            ensure!(!more, format!("roundtrip-leftover:{what}"), "{what}: bytes left over after decoding");
            Ok(())
        },
    }
}

struct DebugTrunc<'a, T: Debug>(&'a T);
impl<T: Debug> Debug for DebugTrunc<'_, T> {
    fn fmt(&self, f: &mut std::fmt::Formatter<'_>) -> std::fmt::Result {
        let s = format!("{:?}", self.0);
        write!(f, "{}", s.chars().take(300).collect::<String>())
    }
}

fn trace_info(s: &mut Src, rec: &mut Rec) -> CaseResult {
    let main = match s.below(5) {
        0 => 255,
        1 => 1,
        2 => 254,
        _ => s.range(1, 255) as usize,
    };
    let aux = match s.below(5) {
        0 => 0,
        1 => 255 - main,
        2 => (255 - main).min(1),
        3 => (256 - main).min(255), // total 256: must be rejected by the constructor
        _ => s.below((255 - main) as u64 + 1) as usize,
    };
    let rands = match s.below(5) {
        0 => 0,
        1 => 255,
        2 => 256,
        _ => s.below(256) as usize,
    };
    let log_len = match s.below(5) {
        0 => 3,
        1 => 31,
        2 => 62,
        3 => 2, // too short: rejected
        _ => s.range(3, 40) as u32,
    };
    let meta_len = match s.below(4) {
        0 => s.pick_copy(&[0usize, 1, 6, 7, 8, 255, 256, 65534, 65535, 65536]),
        1 => 0,
        _ => s.below(64) as usize,
    };
    let meta = if meta_len > 300 { vec![0xabu8; meta_len] } else { s.bytes(meta_len) };
    rec.class_if(aux > 0 && rands == 0, "aux_zero_rands_offered");
    rec.set_fp(&(main, aux, rands, log_len, meta_len, meta.first().copied()));
    rec.describe(|| json!({"type": "TraceInfo", "main": main, "aux": aux, "rands": rands, "log_length": log_len, "meta_len": meta_len}));
    let v = match catch(|| TraceInfo::new_multi_segment(main, aux, rands, 1usize << log_len, meta.clone())) {
        Ok(v) => v,
        Err(_) => {
            rec.class("offered_rejected");
            return Ok(());
        },
    };
    rec.nontrivial();
    rec.class_if(main + aux == 255, "trace_width_255");
    rec.class_if(meta_len == 65535, "meta_65535");
    rec.class_if(rands == 255 && aux > 0, "rands_255");
    roundtrip("TraceInfo", &v)
}

fn gen_optspec(s: &mut Src) -> OptSpec {
    let exhaust = s.below(10);
    let pick = |s: &mut Src, field: u64, lo: u64, hi: u64, default: u64| -> u64 {
        if exhaust == field {
            s.range(lo, hi)
        } else if s.chance(1, 3) {
            s.range(lo, hi)
        } else {
            default
        }
    };
    OptSpec {
        queries: pick(s, 0, 1, 255, 27) as usize,
        blowup: 1 << pick(s, 1, 1, 7, 3),
        grinding: pick(s, 2, 0, 32, 0) as u32,
        ext: pick(s, 3, 1, 3, 1) as u8,
        folding: 1 << pick(s, 4, 1, 4, 2),
        rem_degree: (1usize << pick(s, 5, 0, 8, 5)) - 1,
        batch_c: pick(s, 6, 0, 2, 0) as u8,
        batch_d: pick(s, 7, 0, 2, 0) as u8,
        partitions: pick(s, 8, 1, 16, 1) as usize,
        hash_rate: match s.below(6) {
            0 => 256,
            1 => 255,
            _ => pick(s, 9, 1, 255, 1) as usize,
        },
    }
}

fn options_context(s: &mut Src, rec: &mut Rec) -> CaseResult {
    let o = gen_optspec(s);
    rec.class_if(o.hash_rate == 256, "hash_rate_256_offered");
    rec.set_fp(&format!("{o:?}"));
    rec.describe(|| json!({"type": "ProofOptions/Context", "options": o.describe()}));
    let options: ProofOptions = match catch(|| o.build()) {
        Ok(v) => v,
        Err(_) => {
            rec.class("offered_rejected");
            return Ok(());
        },
    };
    rec.nontrivial();
    roundtrip("ProofOptions", &options)?;
    // context over each field
    let width = s.range(1, 255) as usize;
    let log_len = s.range(3, 24) as u32;
    let ncons = match s.below(4) {
        0 => 1,
        1 => u32::MAX as usize,
        _ => s.range(1, 1 << 20) as usize,
    };
    let meta_len = s.below(20) as usize;
    let meta = s.bytes(meta_len);
    macro_rules! ctx {
        ($B:ty, $name:expr) => {{
            match catch(|| Context::new::<$B>(TraceInfo::with_meta(width, 1usize << log_len, meta.clone()), options.clone(), ncons)) {
                Ok(c) => roundtrip($name, &c)?,
                Err(_) => rec.class("offered_rejected"),
            }
        }};
    }
    ctx!(winter_math::fields::f62::BaseElement, "Context<f62>");
    ctx!(winter_math::fields::f64::BaseElement, "Context<f64>");
    ctx!(winter_math::fields::f128::BaseElement, "Context<f128>");
    Ok(())
}

fn components(s: &mut Src, rec: &mut Rec) -> CaseResult {
    let idx = s.below(NUM_HASHERS);
    with_hasher!(idx, X, {
        let cube = <<X as HS>::S as FSpec>::CUBE.is_some();
        match s.below(3) {
            0 => comp::<X, <<X as HS>::S as FSpec>::B>(s, rec),
            1 => comp::<X, Q<<<X as HS>::S as FSpec>::B>>(s, rec),
            _ if cube => comp::<X, C<<<X as HS>::S as FSpec>::B>>(s, rec),
            _ => comp::<X, Q<<<X as HS>::S as FSpec>::B>>(s, rec),
        }
    })
}

fn comp<X: HS, E: FieldElement<BaseField = <X::S as FSpec>::B>>(s: &mut Src, rec: &mut Rec) -> CaseResult {
    let name = X::NAME;
    let kind = s.below(5);
    let mut mix = Mix(s.u64());
    match kind {
        0 => {
            rec.class("type:Commitments");
            let nt = s.range(1, 2) as usize;
            let nf = s.range(0, 40) as usize;
            let mut dig = || X::from_ref(&gen_digest::<X>(s));
            let trace_roots: Vec<_> = (0..nt).map(|_| dig()).collect();
            let cr = dig();
            let fri: Vec<_> = (0..nf + 1).map(|_| dig()).collect();
            rec.set_fp(&(name, "commitments", nt, nf, X::to_ref(&cr)));
            rec.describe(|| json!({"type": "Commitments", "hasher": name, "trace_roots": nt, "fri_layers": nf}));
            rec.nontrivial();
            let c = Commitments::new::<X::H>(trace_roots.clone(), cr, fri.clone());
            roundtrip(&format!("Commitments<{name}>"), &c)?;
            match catch(|| c.clone().parse::<X::H>(nt, nf)) {
                Ok(Ok((t, k, f))) => ensure!(t == trace_roots && k == cr && f == fri, "commitments-parse-differs", "{name}: Commitments::parse does not return the digests it was built from"),
                Ok(Err(e)) => return Err(Fail::new("commitments-parse-rejected", format!("{name}: Commitments::parse rejected its own value: {e}"))),
                Err(pn) => return Err(Fail::new(pn.key(), format!("Commitments::parse panicked: {}", pn.message))),
            }
            // a wrong layer count must be an error (bytes left over or missing), never a panic
            ensure!(matches!(catch(|| c.clone().parse::<X::H>(nt, nf + 1)), Ok(Err(_))), "commitments-parse-wrong-count", "{name}: Commitments::parse with one layer too many did not return an error");
            Ok(())
        },
        1 => {
            rec.class("type:Queries");
            // real batch openings
            let log_n = s.range(1, 10) as u32;
            let n = 1usize << log_n;
            let rows = match s.below(6) {
                0 => 255.min(n),
                1 => 1,
                _ => s.range(1, 64.min(n) as u64) as usize,
            };
            rec.class_if(rows == 255, "queries_255_rows");
            let vals = match s.below(6) {
                0 => 255,
                1 => 1,
                _ => s.range(1, 40) as usize,
            };
            let leaves: Vec<<X::H as Hasher>::Digest> = (0..n).map(|i| X::from_ref(&if X::is_rescue() { RefD::Elems(vec![i as u128 + 1, 2, 3, mix.next() as u128 % 1000]) } else { RefD::Bytes(vec![(i % 251) as u8; X::digest_bytes()]) })).collect();
            let tree = MerkleTree::<X::H>::new(leaves).map_err(|e| Fail::new("harness-tree", format!("{e:?}")))?;
            let mut idx: Vec<usize> = (0..n).collect();
            for i in (1..n).rev() {
                let j = (mix.next() % (i as u64 + 1)) as usize;
                idx.swap(i, j);
            }
            idx.truncate(rows);
            let (_, proof) = tree.prove_batch(&idx).map_err(|e| Fail::new("harness-prove-batch", format!("{e:?}")))?;
            let table: Vec<Vec<E>> = (0..rows).map(|_| (0..vals).map(|_| mix.elem::<X::S, E>().0).collect()).collect();
            rec.set_fp(&(name, "queries", n, rows, vals, E::EXTENSION_DEGREE, mix.0));
            rec.describe(|| json!({"type": "Queries", "hasher": name, "domain": n, "rows": rows, "values_per_row": vals, "extension_degree": E::EXTENSION_DEGREE}));
            rec.nontrivial();
            let proof_bytes = proof.to_bytes();
            let q = match catch(|| Queries::new::<X::H, E, MerkleTree<X::H>>(proof, table.clone())) {
                Ok(q) => q,
                Err(_) => {
                    rec.class("offered_rejected");
                    return Ok(());
                },
            };
            roundtrip(&format!("Queries<{name}>"), &q)?;
            match catch(|| q.clone().parse::<E, X::H, MerkleTree<X::H>>(n, rows, vals)) {
                Ok(Ok((p, t))) => {
                    ensure!(p.to_bytes() == proof_bytes, "queries-parse-proof-differs", "{name}: Queries::parse returns a different batch opening");
                    ensure!(t.num_rows() == rows && t.num_columns() == vals && t.rows().zip(&table).all(|(a, b)| a == &b[..]), "queries-parse-table-differs", "{name}: Queries::parse returns a different table ({rows} x {vals})");
                    Ok(())
                },
                Ok(Err(e)) => Err(Fail::new("queries-parse-rejected", format!("{name}: Queries::parse rejected a value built by Queries::new ({rows} rows x {vals} values, domain {n}): {e}"))),
                Err(pn) => Err(Fail::new(format!("queries-parse-{}", pn.key()), format!("{name}: Queries::parse panicked on a value built by Queries::new ({rows} rows x {vals} values, domain {n}): {}", pn.message))),
            }
        },
        2 => {
            rec.class("type:OodFrame");
            let main = s.range(1, 255) as usize;
            let aux = s.below((255 - main) as u64 + 1) as usize;
            let nq = s.range(1, 128) as usize;
            let cur: Vec<E> = (0..main + aux).map(|i| if i < 2 { gen_elem::<X::S, E>(s).0 } else { mix.elem::<X::S, E>().0 }).collect();
            let next: Vec<E> = (0..main + aux).map(|_| mix.elem::<X::S, E>().0).collect();
            let qc: Vec<E> = (0..nq).map(|_| mix.elem::<X::S, E>().0).collect();
            let qn: Vec<E> = (0..nq).map(|_| mix.elem::<X::S, E>().0).collect();
            rec.set_fp(&(name, "ood", main, aux, nq, E::EXTENSION_DEGREE, mix.0));
            rec.describe(|| json!({"type": "OodFrame", "field": <X::S as FSpec>::NAME, "main": main, "aux": aux, "quotients": nq, "extension_degree": E::EXTENSION_DEGREE}));
            rec.nontrivial();
            let mut f = OodFrame::default();
            f.set_trace_states(&TraceOodFrame::new(cur.clone(), next.clone(), main));
            f.set_quotient_states(&QuotientOodFrame::new(qc.clone(), qn.clone()));
            roundtrip("OodFrame", &f)?;
            match catch(|| f.clone().parse::<E>(main, aux, nq)) {
                Ok(Ok((t, q))) => {
                    ensure!(t.current_row() == &cur[..] && t.next_row() == &next[..] && q.current_row() == &qc[..] && q.next_row() == &qn[..], "ood-parse-differs", "OodFrame::parse returns rows different from the ones set ({main}+{aux} columns, {nq} quotients)");
                    Ok(())
                },
                Ok(Err(e)) => Err(Fail::new("ood-parse-rejected", format!("OodFrame::parse rejected its own value ({main}+{aux} columns, {nq} quotients, E degree {}): {e}", E::EXTENSION_DEGREE))),
                Err(pn) => Err(Fail::new(pn.key(), format!("OodFrame::parse panicked: {}", pn.message))),
            }
        },
        3 => {
            rec.class("type:BatchMerkleProof");
            let log_n = s.range(1, 9) as u32;
            let n = 1usize << log_n;
            let leaves: Vec<<X::H as Hasher>::Digest> = (0..n).map(|_| X::from_ref(&gen_digest::<X>(s))).collect();
            let tree = MerkleTree::<X::H>::new(leaves).map_err(|e| Fail::new("harness-tree", format!("{e:?}")))?;
            let k = s.range(1, n.min(32) as u64) as usize;
            let mut idx: Vec<usize> = (0..k).map(|_| s.below(n as u64) as usize).collect();
            idx.sort();
            idx.dedup();
            let (_, proof) = tree.prove_batch(&idx).map_err(|e| Fail::new("harness-prove-batch", format!("{e:?}")))?;
            rec.set_fp(&(name, "bmp", n, &idx));
            rec.describe(|| json!({"type": "BatchMerkleProof", "hasher": name, "leaves": n, "indexes": idx}));
            rec.nontrivial();
            let bytes = proof.to_bytes();
            let mut rd = SliceReader::new(&bytes);
            match catch(|| BatchMerkleProof::<X::H>::read_from(&mut rd)) {
                Ok(Ok(d)) => {
                    ensure!(d.nodes == proof.nodes && d.depth == proof.depth && !rd.has_more_bytes(), format!("roundtrip-differs:BatchMerkleProof<{name}>"), "{name}: decoded batch proof differs or leaves bytes over");
                    Ok(())
                },
                Ok(Err(e)) => Err(Fail::new("roundtrip-rejected:BatchMerkleProof", format!("{name}: batch proof does not decode: {e}"))),
                Err(pn) => Err(Fail::new(pn.key(), format!("BatchMerkleProof::read_from panicked: {}", pn.message))),
            }
        },
        _ => {
            rec.class("type:digest");
            rec.class(&format!("digest:{name}"));
            let d = gen_digest::<X>(s);
            rec.set_fp(&(name, "digest", &d));
            rec.describe(|| json!({"type": "digest", "hasher": name, "value": show_d(&d)}));
            rec.nontrivial();
            let v = X::from_ref(&d);
            roundtrip(&format!("digest<{name}>"), &v)
        },
    }
}

fn proofs(s: &mut Src, rec: &mut Rec) -> CaseResult {
    let idx = s.below(NUM_HASHERS);
    with_hasher!(idx, X, proof_case::<X>(s, rec))
}

fn proof_case<X: HS>(s: &mut Src, rec: &mut Rec) -> CaseResult
where
    X::H: Send + Sync,
{
    let mut cfg = GenCfg::small();
    cfg.max_log_n = if X::is_rescue() { 5 } else { 7 };
    let case = gen_case::<X>(s, &cfg, if X::is_rescue() { 1 << 8 } else { 1 << 11 }, rec);
    rec.set_fp(&(X::NAME, case.spec.fingerprint(), format!("{:?}", case.opt)));
    rec.describe(|| json!({"type": "Proof", "instance": X::NAME, "spec": case.spec.describe(), "options": case.opt.describe()}));
    let proof = match prove::<X>(&case.spec, &case.options, case.main.clone()) {
        ProveOutcome::Proof(p) => *p,
        _ => {
            rec.class("prover_declined");
            return Ok(());
        },
    };
    rec.nontrivial();
    roundtrip("Proof", &proof)?;
    let decoded = Proof::from_bytes(&proof.to_bytes()).map_err(|e| Fail::new("roundtrip-rejected:Proof", format!("{e}")))?;
    // same verdict with the honest public inputs ...
    let a = matches!(verify_proof::<X>(proof.clone(), &case.spec, &case.options), VerifyOutcome::Accept);
    let b = matches!(verify_proof::<X>(decoded.clone(), &case.spec, &case.options), VerifyOutcome::Accept);
    ensure!(a == b, "verdict-differs-after-roundtrip", "original proof accepted = {a}, decoded proof accepted = {b}");
    // ... and with perturbed ones
    let mut sp = (*case.spec).clone();
    sp.tag ^= 1;
    let sp = std::sync::Arc::new(sp);
    let a2 = matches!(verify_proof::<X>(proof, &sp, &case.options), VerifyOutcome::Accept);
    let b2 = matches!(verify_proof::<X>(decoded, &sp, &case.options), VerifyOutcome::Accept);
    rec.class_if(!a2 && !b2, "proof_verdict_reject_both");
    ensure!(a2 == b2, "verdict-differs-after-roundtrip", "with perturbed public inputs: original accepted = {a2}, decoded accepted = {b2}");
    Ok(())
}
