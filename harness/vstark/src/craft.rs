//! Crafted proofs that are *consistent with their own (possibly hostile) header*: after a header /
//! commitment / OOD-frame edit the public-coin transcript changes, so a plain byte mutant dies at
//! the out-of-domain consistency check. `reconcile_ood` recomputes the quotient OOD row exactly as a
//! verifier would from the AIR's public API (transition + boundary constraints at z), so that the
//! edited proof passes that check and verification continues into the stages behind it
//! (FRI layer commitments, proof of work, query positions, Merkle openings, DEEP, FRI queries).

use vfield::Spec as FSpec;
use vgen::{GenAir, PubInputs, SpecRef};
use vhash::*;
use winter_air::proof::{OodFrame, Proof, QuotientOodFrame};
use winter_air::{Air, AuxRandElements, ConstraintCompositionCoefficients, EvaluationFrame};
use winter_crypto::{DefaultRandomCoin, RandomCoin};
use winter_math::{polynom, FieldElement, ToElements};

/// the verifier's combined constraint evaluation at x, from public API only
pub fn constraint_value<A: Air, E: FieldElement<BaseField = A::BaseField>>(
    air: &A,
    cc: ConstraintCompositionCoefficients<E>,
    main: &EvaluationFrame<E>,
    aux: &Option<EvaluationFrame<E>>,
    aux_rands: Option<&AuxRandElements<E>>,
    x: E,
) -> E {
    let t = air.get_transition_constraints(&cc.transition);
    let periodic: Vec<E> = air
        .get_periodic_column_polys()
        .iter()
        .map(|poly| {
            let cycles = air.trace_length() / poly.len();
            polynom::eval(poly, x.exp_vartime((cycles as u32).into()))
        })
        .collect();
    let mut e1 = vec![E::ZERO; t.num_main_constraints()];
    air.evaluate_transition(main, &periodic, &mut e1);
    let mut e2 = vec![E::ZERO; t.num_aux_constraints()];
    if let (Some(auxf), Some(r)) = (aux, aux_rands) {
        air.evaluate_aux_transition(main, auxf, &periodic, r, &mut e2);
    }
    let mut result = t.combine_evaluations::<E>(&e1, &e2, x);
    let b = air.get_boundary_constraints(aux_rands, &cc.boundary);
    for g in b.main_constraints().iter() {
        result += g.evaluate_at(main.current(), x);
    }
    if let Some(auxf) = aux {
        for g in b.aux_constraints().iter() {
            result += g.evaluate_at(auxf.current(), x);
        }
    }
    result
}

/// Rewrites the quotient part of `proof.ood_frame` so that the OOD consistency check passes under
/// the proof's own context, commitments and OOD trace frame. Err = the proof's header no longer
/// describes something GenAir can be instantiated for, or a part does not parse.
pub fn reconcile_ood<X: HS, E: FieldElement<BaseField = <X::S as FSpec>::B>>(proof: &mut Proof, spec: &SpecRef) -> Result<(), String> {
    let pub_inputs = PubInputs::<X::S>::new(spec.clone());
    let mut seed = proof.context.to_elements();
    seed.append(&mut pub_inputs.to_elements());
    let options = proof.options().clone();
    let air = GenAir::<X::S>::new(proof.trace_info().clone(), pub_inputs, options.clone());
    let mut coin = DefaultRandomCoin::<X::H>::new(&seed);
    let lde = air.lde_domain_size();
    let num_layers = options.to_fri_options().num_fri_layers(lde);
    let (trace_roots, constraint_root, _fri) = proof.commitments.clone().parse::<X::H>(air.trace_info().num_segments(), num_layers).map_err(|e| format!("commitments: {e}"))?;
    coin.reseed(trace_roots[0]);
    let aux_rands = if air.trace_info().is_multi_segment() {
        let r = air.get_aux_rand_elements::<E, _>(&mut coin).map_err(|e| format!("{e}"))?;
        coin.reseed(trace_roots[1]);
        Some(r)
    } else {
        None
    };
    let cc = air.get_constraint_composition_coefficients::<E, _>(&mut coin).map_err(|e| format!("{e}"))?;
    coin.reseed(constraint_root);
    let z: E = coin.draw().map_err(|e| format!("{e}"))?;
    let cols = air.context().num_constraint_composition_columns();
    let main_width = air.trace_info().main_trace_width();
    let aux_width = air.trace_info().aux_segment_width();
    let (ood_trace, ood_quot) = proof.ood_frame.clone().parse::<E>(main_width, aux_width, cols).map_err(|e| format!("ood: {e}"))?;
    let value = constraint_value(&air, cc, &ood_trace.main_frame(), &ood_trace.aux_frame(), aux_rands.as_ref(), z);
    let mut cur = vec![E::ZERO; cols];
    cur[0] = value;
    let next = ood_quot.next_row().to_vec();
    let mut frame = OodFrame::default();
    frame.set_trace_states(&ood_trace);
    frame.set_quotient_states(&QuotientOodFrame::new(cur, next));
    proof.ood_frame = frame;
    Ok(())
}
