//! C17 — hash padding separates inputs of different length.
//!
//! Collision-prone input families are generated per hasher; within a family all digests must be
//! pairwise distinct (an equality would be a hash collision, probability < 2^-90, unless the
//! padding rule is faulty).

use vcore::*;
use vfield::*;
use winter_crypto::{ElementHasher, Hasher};

use crate::hs::*;

pub fn prop() -> Prop {
    Prop {
        id: "C17",
        level: "exploration",
        rule: "case = one input family for one of the 12 hasher instances: {x, x||0^k}, {x, prefixes of x}, lengths straddling multiples of 7 and 7*rate (hash); {e, e||0^k} around multiples of the rate, [] vs [0], and the same coordinate sequences presented as quadratic / cubic extension elements (hash_elements); L vs L||default^k vs prefixes of L (merge_many); (s, x + j*p) for every j with x + j*p < 2^64 (merge_with_int). Oracle: digests pairwise distinct within the family. Non-trivial = the family has >= 2 members whose padded block sequences have the same number of blocks (the dangerous case); distinct = hash of (hasher, family kind, members).",
        assumptions: vec![
            "only inputs that differ as inputs to the same entry point are compared (merge = hash_elements on the same elements is by design for the sponge variants)",
            "a digest equality between different inputs is attributed to the padding rule: a genuine collision has probability < 2^-90",
            "a panic of a hasher on some member of a family is reported as a violation too (no digest, hence no separation)",
        ],
        subs: vec![Sub::gen("families", families, 96, 300_000, 10_000_000)],
        required: vec!["family:zero_extension", "family:prefix", "family:elements_zero_extension", "elements_given_as_extension_elements", "family:merge_many_split", "family:int_congruent", "same_block_count", "hasher:Rp64_256", "hasher:RpJive64_256", "hasher:Rp62_248", "hasher:Blake3_256<f64>", "hasher:Sha3_256<f128>", "hasher:Blake3_192<f62>"],
        required_thorough: vec![],
    }
}

fn families(s: &mut Src, rec: &mut Rec) -> CaseResult {
    let idx = s.below(NUM_HASHERS);
    with_hasher!(idx, X, run::<X>(s, rec))
}

fn run<X: HS>(s: &mut Src, rec: &mut Rec) -> CaseResult {
    rec.class(&format!("hasher:{}", X::NAME));
    let rate = X::params().map(|p| p.rate_width).unwrap_or(8);
    let kind = s.below(5);
    // members: (label, digest or panic)
    let mut members: Vec<(String, Result<RefD, PanicInfo>, usize)> = vec![];
    let kname;
    match kind {
        0 | 1 => {
            // byte strings: zero extension / prefixes
            kname = if kind == 0 { "zero_extension" } else { "prefix" };
            let base_len = match s.below(5) {
                0 => 0,
                1 => 7 * s.range(0, 3 * rate as u64),
                2 => 7 * rate as u64 * s.range(1, 2) - s.range(0, 8),
                3 => s.range(57, 130),
                _ => s.range(0, 130),
            } as usize;
            let mut x = s.bytes(base_len);
            if s.bool() && !x.is_empty() {
                // trailing zero / one bytes already present
                let n = x.len();
                let k = s.range(1, 3.min(n as u64)) as usize;
                let fill = s.pick_copy(&[0u8, 1]);
                for b in x[n - k..].iter_mut() {
                    *b = fill;
                }
            }
            let lens: Vec<usize> = if kind == 0 {
                let kmax = if X::is_rescue() { 2 * rate * 7 } else { 16 };
                let mut v = vec![0usize];
                let count = s.range(2, 6);
                for _ in 0..count {
                    v.push(s.range(1, kmax as u64) as usize);
                }
                v.push(1);
                v.sort();
                v.dedup();
                v
            } else {
                let mut v = vec![base_len];
                for _ in 0..5 {
                    v.push(s.below(base_len as u64 + 1) as usize);
                }
                if base_len > 0 {
                    v.push(base_len - 1);
                }
                v.sort();
                v.dedup();
                v
            };
            for l in lens {
                let data: Vec<u8> = if kind == 0 {
                    let mut d = x.clone();
                    d.extend(std::iter::repeat(0u8).take(l));
                    d
                } else {
                    x[..l].to_vec()
                };
                let blocks = if X::is_rescue() { data.len().div_ceil(7).div_ceil(rate) } else { data.len() / 64 + 1 };
                members.push((format!("hash({} bytes)", data.len()), catch(|| X::to_ref(&<X::H as Hasher>::hash(&data))), blocks));
            }
        },
        2 => {
            kname = "elements_zero_extension";
            let n = match s.below(4) {
                0 => 0,
                1 => rate * s.range(1, 3) as usize,
                2 => (rate * s.range(1, 3) as usize).saturating_sub(s.range(1, 3) as usize),
                _ => s.range(0, 30) as usize,
            };
            let mut elems: Vec<<X::S as Spec>::B> = vec![];
            for i in 0..n {
                let (e, _) = if i + 3 >= n && s.bool() { (<X::S as Spec>::from_int(0), vec![0]) } else { gen_elem::<X::S, <X::S as Spec>::B>(s) };
                elems.push(e);
            }
            let mut ks = vec![0usize, 1];
            for _ in 0..4 {
                ks.push(s.range(1, 2 * rate as u64 + 1) as usize);
            }
            // the same sequence doubled / tripled in length by zeros: as extension elements it has as
            // many ELEMENTS as the original has base elements (a length taken from the wrong type collides)
            if n >= 1 {
                ks.push(n);
                ks.push(2 * n);
            }
            ks.sort();
            ks.dedup();
            for k in ks {
                let mut e = elems.clone();
                e.extend(std::iter::repeat(<X::S as Spec>::from_int(0)).take(k));
                let blocks = e.len().div_ceil(rate);
                // the member is presented as base elements, or (same coordinate sequence) as quadratic / cubic elements
                let as_ext = s.below(3);
                if as_ext == 1 && !e.is_empty() && e.len() % 2 == 0 {
                    rec.class("elements_given_as_extension_elements");
                    let q: Vec<Q<<X::S as Spec>::B>> = e.chunks(2).map(|c| Q::<<X::S as Spec>::B>::new(c[0], c[1])).collect();
                    members.push((format!("hash_elements({} quadratic elements = {} coordinates, last {k} zero)", q.len(), e.len()), catch(|| X::to_ref(&<X::H as ElementHasher>::hash_elements(&q))), blocks));
                } else if as_ext == 2 && !e.is_empty() && e.len() % 3 == 0 && <X::S as Spec>::CUBE.is_some() {
                    rec.class("elements_given_as_extension_elements");
                    let c3: Vec<C<<X::S as Spec>::B>> = e.chunks(3).map(|c| C::<<X::S as Spec>::B>::new(c[0], c[1], c[2])).collect();
                    members.push((format!("hash_elements({} cubic elements = {} coordinates, last {k} zero)", c3.len(), e.len()), catch(|| X::to_ref(&<X::H as ElementHasher>::hash_elements(&c3))), blocks));
                } else {
                    members.push((format!("hash_elements({} elements, last {k} zero)", e.len()), catch(|| X::to_ref(&<X::H as ElementHasher>::hash_elements(&e))), blocks));
                }
            }
        },
        3 => {
            kname = "merge_many_split";
            let n = s.range(0, 6) as usize;
            let list: Vec<RefD> = (0..n).map(|_| gen_digest::<X>(s)).collect();
            let default = X::to_ref(&<<X::H as Hasher>::Digest as Default>::default());
            let mut variants: Vec<Vec<RefD>> = vec![list.clone()];
            for k in 1..=3 {
                let mut v = list.clone();
                v.extend(std::iter::repeat(default.clone()).take(k));
                variants.push(v);
            }
            for l in 0..n {
                variants.push(list[..l].to_vec());
            }
            variants.sort_by_key(|v| v.len());
            variants.dedup();
            for v in variants {
                let imp: Vec<_> = v.iter().map(|d| X::from_ref(d)).collect();
                let blocks = (4 * v.len()).div_ceil(rate);
                members.push((format!("merge_many({} digests)", v.len()), catch(|| X::to_ref(&<X::H as Hasher>::merge_many(&imp))), blocks));
            }
        },
        _ => {
            kname = "int_congruent";
            let seed = gen_digest::<X>(s);
            let p = <X::S as Spec>::P;
            let x: u128 = match s.below(4) {
                0 => 0,
                1 => s.below(16) as u128,
                2 => (p - 1 - s.below(16) as u128) % p,
                _ => s.u128() % p,
            };
            let mut j = 0u128;
            while x + j * p <= u64::MAX as u128 && j < 8 {
                let v = (x + j * p) as u64;
                members.push((format!("merge_with_int(seed, {v})"), catch(|| X::to_ref(&<X::H as Hasher>::merge_with_int(X::from_ref(&seed), v))), 1));
                j += 1;
            }
            if members.len() < 2 {
                // f128: p > 2^64, no congruent pair exists; compare x with x+1 instead
                let v = x as u64;
                members.push((format!("merge_with_int(seed, {})", v.wrapping_add(1)), catch(|| X::to_ref(&<X::H as Hasher>::merge_with_int(X::from_ref(&seed), v.wrapping_add(1)))), 1));
            }
        },
    }
    rec.class(&format!("family:{kname}"));
    // non-trivial: two members with the same number of blocks
    let mut counts = std::collections::BTreeMap::new();
    for m in &members {
        *counts.entry(m.2).or_insert(0) += 1;
    }
    if counts.values().any(|c| *c >= 2) {
        rec.nontrivial();
        rec.class("same_block_count");
    }
    rec.set_fp(&(X::NAME, kname, members.iter().map(|m| (m.0.clone(), m.1.as_ref().ok().cloned())).collect::<Vec<_>>()));
    rec.describe(|| json!({"hasher": X::NAME, "family": kname, "members": members.iter().map(|m| m.0.clone()).collect::<Vec<_>>()}));
    rec.weight = members.len() as u64;
    for m in &members {
        if let Err(pn) = &m.1 {
            return Err(Fail::new(format!("{}:{}", pn.key(), X::NAME), format!("{} {} panicked at {}: {}", X::NAME, m.0, pn.location, pn.message)));
        }
    }
    for i in 0..members.len() {
        for j in i + 1..members.len() {
            let (a, b) = (members[i].1.as_ref().unwrap(), members[j].1.as_ref().unwrap());
            ensure!(a != b, format!("padding-collision:{}:{kname}", X::NAME), "{}: {} and {} have the same digest {}", X::NAME, members[i].0, members[j].0, show_d(a));
        }
    }
    Ok(())
}
