//! C19 — Merkle verification rejects wrong data and never panics.

use vcore::*;
use winter_crypto::{BatchMerkleProof, Hasher, MerkleTree};

use crate::c18::{copy_proof, gen_index_set, gen_leaves};
use crate::hs::*;

pub fn prop() -> Prop {
    Prop {
        id: "C19",
        level: "fault_enumeration",
        rule: "fault cases = a tree (2^1..2^9 leaves, pairwise distinct or with deliberately duplicated leaves) + one single-site fault: other leaf value / other in-range index / proof node replaced or two nodes swapped (single openings); one leaf, index or node changed, leaves list shortened, index duplicated, index out of range, empty index list (batch). Oracle: verification returns Ok iff the presented triple equals a genuine opening of the tree for the presented index (list), so duplicated leaves raise no alarm; out-of-range / duplicated / empty must be Err. malformed cases = arbitrary BatchMerkleProof {nodes: 0..8 x 0..8 digests, depth 0..=255} with arbitrary index and leaf lists: get_root, verify_batch and into_openings must return (Ok or Err) without panicking. Non-trivial = the fault changes the triple / the malformed proof gets past the index-map stage; distinct = hash of (hasher, tree seed, fault). Sub-check deep_genuine: genuine openings of virtual trees of depth 1..63 (hand-made consistent paths; the proof types carry any depth) must be ACCEPTED by verify / verify_batch / get_root and expanded by into_openings without error or panic (the other direction of accept <=> genuine, at depths no built tree reaches).",
        assumptions: vec![
            "release profile: arithmetic on hostile depths wraps instead of trapping, as in the shipped library",
            "superfluous data that the verifier never reads (an extra leaf beyond the index list, an extra node at the end of a node vector) is recorded, not asserted: the property speaks about supplied data that differs from the tree's",
            "single-opening verification with an empty path is outside the generated domain (the panic-freedom clause of the property lists batch reconstruction, batch verification and expansion)",
        ],
        subs: vec![Sub::gen("faults", faults, 200, 80_000, 3_000_000), Sub::gen("malformed", malformed, 200, 400_000, 20_000_000), Sub::gen("deep_genuine", crate::c18::deep_virtual, 160, 10_000, 300_000)],
        required: vec!["fault:batch_extra_node", "fault:leaf", "fault:index", "fault:node", "fault:batch_leaf", "fault:batch_index", "fault:batch_node", "fault:batch_short_leaves", "fault:batch_dup_index", "fault:batch_oob_index", "fault:batch_empty", "duplicated_leaves", "accepted_genuine_alternative", "malformed_past_index_map"],
        required_thorough: vec![],
    }
}

fn faults(s: &mut Src, rec: &mut Rec) -> CaseResult {
    // byte hashers over one field are enough for structure; all Rescue hashers included
    let idx = s.pick_copy(&[1u64, 4, 7, 2, 9, 10, 11]);
    with_hasher!(idx, X, faults_x::<X>(s, rec))
}

fn other_digest<X: HS>(s: &mut Src, avoid: &<X::H as Hasher>::Digest) -> <X::H as Hasher>::Digest {
    loop {
        let d = X::from_ref(&gen_digest::<X>(s));
        if d != *avoid {
            return d;
        }
        if s.exhausted() {
            return <X::H as Hasher>::hash(b"another digest");
        }
    }
}

fn faults_x<X: HS>(s: &mut Src, rec: &mut Rec) -> CaseResult {
    let name = X::NAME;
    let log_n = s.range(1, if X::is_rescue() { 6 } else { 9 }) as u32;
    let n = 1usize << log_n;
    let seed = s.u64();
    let mut leaves = gen_leaves::<X>(seed, n);
    let dup = s.chance(1, 3);
    if dup {
        rec.class("duplicated_leaves");
        // duplicate sibling leaves and distant leaves
        let k = s.range(1, 4);
        for _ in 0..k {
            let a = s.below(n as u64) as usize;
            let b = if s.bool() { a ^ 1 } else { s.below(n as u64) as usize };
            leaves[b] = leaves[a];
        }
        if s.chance(1, 4) {
            let v = leaves[0];
            for l in leaves.iter_mut() {
                *l = v;
            }
        }
    }
    let tree = MerkleTree::<X::H>::new(leaves.clone()).map_err(|e| Fail::new("tree-new-rejected", format!("{e:?}")))?;
    let root = *tree.root();
    let kind = s.below(10);
    let kname = ["leaf", "index", "node", "batch_leaf", "batch_index", "batch_node", "batch_short_leaves", "batch_dup_index", "batch_oob_index", "batch_empty"][kind as usize];
    rec.class(&format!("fault:{kname}"));
    rec.set_fp(&(name, seed, n, dup, kind, s.consumed()));
    match kind {
        0..=2 => {
            let i = s.below(n as u64) as usize;
            let (leaf, path) = tree.prove(i).unwrap();
            let (mut i2, mut leaf2, mut path2) = (i, leaf, path.clone());
            match kind {
                0 => {
                    leaf2 = if dup && s.bool() { leaves[s.below(n as u64) as usize] } else { other_digest::<X>(s, &leaf) };
                },
                1 => {
                    i2 = s.below(n as u64) as usize;
                    if s.bool() {
                        i2 = i ^ (1 << s.below(log_n as u64));
                    }
                },
                _ => {
                    let k = s.below(path.len() as u64) as usize;
                    if path.len() >= 2 && s.chance(1, 3) {
                        let k2 = s.below(path.len() as u64) as usize;
                        path2.swap(k, k2);
                    } else if dup && s.chance(1, 3) {
                        path2[k] = leaves[s.below(n as u64) as usize];
                    } else {
                        path2[k] = other_digest::<X>(s, &path[k]);
                    }
                },
            }
            let changed = (i2, leaf2, &path2) != (i, leaf, &path);
            if changed {
                rec.nontrivial();
            }
            rec.describe(|| json!({"hasher": name, "leaves": n, "fault": kname, "index": i, "presented_index": i2, "duplicated_leaves": dup}));
            let genuine = tree.prove(i2).map(|(l, p)| l == leaf2 && p == path2).unwrap_or(false);
            let verdict = match catch(|| MerkleTree::<X::H>::verify(root, i2, leaf2, &path2)) {
                Ok(v) => v.is_ok(),
                Err(pn) => return Err(Fail::new(pn.key(), format!("verify panicked: {}", pn.message))),
            };
            if genuine && changed {
                rec.class("accepted_genuine_alternative");
            }
            ensure!(verdict == genuine, format!("single-verify-{}:{kname}", if verdict { "accepts-wrong" } else { "rejects-genuine" }), "{name}, {n} leaves, fault {kname} on the opening of leaf {i} (presented index {i2}): verify returned {} but the presented (leaf, path) is {}a genuine opening for index {i2}", if verdict { "Ok" } else { "Err" }, if genuine { "" } else { "not " });
        },
        _ => {
            let set = gen_index_set(s, n, rec);
            let (bl, proof) = tree.prove_batch(&set).map_err(|e| Fail::new("prove_batch-rejected", format!("{e:?}")))?;
            let mut set2 = set.clone();
            let mut bl2 = bl.clone();
            let mut proof2 = copy_proof::<X>(&proof);
            let mut must_err = false;
            match kind {
                3 => {
                    let k = s.below(bl.len() as u64) as usize;
                    bl2[k] = if dup && s.bool() { leaves[s.below(n as u64) as usize] } else { other_digest::<X>(s, &bl[k]) };
                },
                4 => {
                    let k = s.below(set.len() as u64) as usize;
                    // another in-range index not already present
                    let cand = if s.bool() { set[k] ^ 1 } else { s.below(n as u64) as usize };
                    if !set.contains(&cand) {
                        set2[k] = cand;
                    }
                },
                5 if s.chance(1, 3) => {
                    // a superfluous node: one more digest at the end of a node vector
                    rec.class("fault:batch_extra_node");
                    let v = s.below(proof2.nodes.len() as u64) as usize;
                    let extra = match proof2.nodes[v].first() {
                        Some(d) if s.bool() => *d,
                        _ => other_digest::<X>(s, &root),
                    };
                    proof2.nodes[v].push(extra);
                },
                5 => {
                    let nonempty: Vec<usize> = (0..proof2.nodes.len()).filter(|i| !proof2.nodes[*i].is_empty()).collect();
                    if !nonempty.is_empty() {
                        let v = *s.pick(&nonempty);
                        let k = s.below(proof2.nodes[v].len() as u64) as usize;
                        let old = proof2.nodes[v][k];
                        proof2.nodes[v][k] = if dup && s.bool() { leaves[s.below(n as u64) as usize] } else { other_digest::<X>(s, &old) };
                    }
                },
                6 => {
                    bl2.pop();
                    must_err = true;
                },
                7 => {
                    let k = s.below(set.len() as u64) as usize;
                    set2.push(set[k]);
                    bl2.push(bl[k]);
                    must_err = true;
                },
                8 => {
                    let k = s.below(set.len() as u64) as usize;
                    set2[k] = n + s.below(4) as usize + if s.bool() { 0 } else { n };
                    must_err = true;
                },
                _ => {
                    set2.clear();
                    bl2.clear();
                    must_err = true;
                },
            }
            let changed = set2 != set || bl2 != bl || proof2.nodes != proof.nodes;
            if changed {
                rec.nontrivial();
            }
            rec.describe(|| json!({"hasher": name, "leaves": n, "fault": kname, "indexes": set, "presented_indexes": set2, "duplicated_leaves": dup}));
            // genuine iff the presented triple is exactly what the tree produces for the presented index list
            let genuine = !must_err
                && match tree.prove_batch(&set2) {
                    Ok((gl, gp)) => gl == bl2 && gp.nodes == proof2.nodes && gp.depth == proof2.depth,
                    Err(_) => false,
                };
            let verdict = match catch(|| MerkleTree::<X::H>::verify_batch(&root, &set2, &bl2, &proof2)) {
                Ok(v) => v.is_ok(),
                Err(pn) => return Err(Fail::new(pn.key(), format!("{name}: verify_batch panicked on fault {kname}: {} at {}", pn.message, pn.location))),
            };
            if genuine && changed {
                rec.class("accepted_genuine_alternative");
            }
            ensure!(verdict == genuine, format!("batch-verify-{}:{kname}", if verdict { "accepts-wrong" } else { "rejects-genuine" }), "{name}, {n} leaves, fault {kname}, indexes {set:?} presented as {set2:?}: verify_batch returned {} but the presented triple is {}a genuine batch opening", if verdict { "Ok" } else { "Err" }, if genuine { "" } else { "not " });
            // expansion must not accept it either, and must not panic
            match catch(|| copy_proof::<X>(&proof2).into_openings(&bl2, &set2)) {
                Err(pn) => return Err(Fail::new(pn.key(), format!("{name}: into_openings panicked on fault {kname}: {} at {}", pn.message, pn.location))),
                Ok(Ok(openings)) => {
                    // every returned opening that verifies must be genuine
                    for (k, (l, p)) in openings.iter().enumerate() {
                        let i = set2[k];
                        if i < n && !p.is_empty() && MerkleTree::<X::H>::verify(root, i, *l, p).is_ok() {
                            let g = tree.prove(i).map(|(gl, gp)| gl == *l && gp == *p).unwrap_or(false);
                            ensure!(g, format!("into_openings-forged:{kname}"), "{name}: into_openings produced a verifying but non-genuine opening for index {i}");
                        }
                    }
                },
                Ok(Err(_)) => {},
            }
            // superfluous data: recorded, not asserted
            if !must_err && kind == 3 {
                let mut bl3 = bl.clone();
                bl3.push(bl[0]);
                if MerkleTree::<X::H>::verify_batch(&root, &set, &bl3, &proof).is_ok() {
                    rec.class("superfluous_leaf_ignored");
                }
            }
        },
    }
    Ok(())
}

fn malformed(s: &mut Src, rec: &mut Rec) -> CaseResult {
    let idx = s.pick_copy(&[1u64, 4, 9, 11]);
    with_hasher!(idx, X, malformed_x::<X>(s, rec))
}

fn malformed_x<X: HS>(s: &mut Src, rec: &mut Rec) -> CaseResult {
    let name = X::NAME;
    // start from nothing or from an honest proof that is then damaged
    let honest = s.chance(1, 2);
    let (mut nodes, mut depth, mut indexes, mut leaves): (Vec<Vec<<X::H as Hasher>::Digest>>, u8, Vec<usize>, Vec<<X::H as Hasher>::Digest>);
    let pool: Vec<<X::H as Hasher>::Digest> = (0..4).map(|_| X::from_ref(&gen_digest::<X>(s))).collect();
    if honest {
        let log_n = s.range(1, 6) as u32;
        let n = 1usize << log_n;
        let tl = gen_leaves::<X>(s.u64(), n);
        let tree = MerkleTree::<X::H>::new(tl).unwrap();
        let set = gen_index_set(s, n, rec);
        let (bl, p) = tree.prove_batch(&set).unwrap();
        nodes = p.nodes.clone();
        depth = p.depth;
        indexes = set;
        leaves = bl;
        // damage
        let nd = s.range(1, 3);
        for _ in 0..nd {
            match s.below(9) {
                0 => depth = s.u8(),
                1 => depth = depth.wrapping_add(s.pick_copy(&[1u8, 255, 63, 64])),
                2 => {
                    if !nodes.is_empty() {
                        let v = s.below(nodes.len() as u64) as usize;
                        nodes[v].pop();
                    }
                },
                3 => {
                    if !nodes.is_empty() {
                        let v = s.below(nodes.len() as u64) as usize;
                        nodes.remove(v);
                    }
                },
                4 => nodes.push(vec![]),
                5 => {
                    if !indexes.is_empty() {
                        let k = s.below(indexes.len() as u64) as usize;
                        indexes[k] = match s.below(4) {
                            0 => usize::MAX,
                            1 => usize::MAX - 1,
                            2 => 1usize << s.below(64),
                            _ => s.below(2 * n as u64 + 2) as usize,
                        };
                    }
                },
                6 => {
                    leaves.pop();
                },
                7 => {
                    indexes.pop();
                },
                _ => {
                    if !nodes.is_empty() {
                        let v = s.below(nodes.len() as u64) as usize;
                        nodes[v].clear();
                    }
                },
            }
        }
    } else {
        let nv = s.below(9) as usize;
        nodes = (0..nv).map(|_| (0..s.below(9)).map(|_| *s.pick(&pool)).collect()).collect();
        depth = match s.below(4) {
            0 => s.below(8) as u8,
            1 => s.pick_copy(&[0u8, 1, 63, 64, 65, 127, 128, 255]),
            _ => s.u8(),
        };
        let ni = s.below(10) as usize;
        indexes = (0..ni)
            .map(|_| match s.below(6) {
                0 => usize::MAX - s.below(3) as usize,
                1 => 1usize << s.below(64),
                _ => s.below(40) as usize,
            })
            .collect();
        let nl = if s.bool() { ni } else { s.below(12) as usize };
        leaves = (0..nl).map(|_| *s.pick(&pool)).collect();
    }
    rec.set_fp(&(name, honest, depth, &indexes, nodes.iter().map(|v| v.len()).collect::<Vec<_>>(), leaves.len(), s.consumed()));
    rec.describe(|| json!({"hasher": name, "from_honest": honest, "depth": depth, "indexes": indexes.iter().map(|i| i.to_string()).collect::<Vec<_>>(), "node_vector_lengths": nodes.iter().map(|v| v.len()).collect::<Vec<_>>(), "leaves": leaves.len()}));
    // does the proof get past the index map stage (distinct, in-range indexes, matching vector count)?
    let in_range = depth < 64 && indexes.iter().all(|i| (*i as u128) < (1u128 << depth));
    let mut sorted = indexes.clone();
    sorted.sort();
    sorted.dedup();
    if !indexes.is_empty() && in_range && sorted.len() == indexes.len() {
        let mut groups: Vec<usize> = indexes.iter().map(|i| i & !1).collect();
        groups.sort();
        groups.dedup();
        if groups.len() == nodes.len() {
            rec.class("malformed_past_index_map");
            rec.nontrivial();
        }
    }
    let mk = || BatchMerkleProof::<X::H> { nodes: nodes.clone(), depth };
    let root = pool[0];
    for (what, r) in [
        ("get_root", catch(|| mk().get_root(&indexes, &leaves).is_ok())),
        ("verify_batch", catch(|| MerkleTree::<X::H>::verify_batch(&root, &indexes, &leaves, &mk()).is_ok())),
        ("into_openings", catch(|| mk().into_openings(&leaves, &indexes).is_ok())),
    ] {
        match r {
            Err(pn) => {
                return Err(Fail::new(
                    format!("{}:{what}", pn.key()),
                    format!("{name}: BatchMerkleProof::{what} panicked at {} on a malformed proof (depth {depth}, {} node vectors, indexes {:?}, {} leaves): {}", pn.location, nodes.len(), &indexes[..indexes.len().min(6)], leaves.len(), pn.message),
                ))
            },
            Ok(accepted) => {
                if accepted && what == "verify_batch" && !honest {
                    return Err(Fail::new("malformed-batch-proof-verified", format!("{name}: a proof assembled from arbitrary digests verified against an unrelated root")));
                }
            },
        }
    }
    Ok(())
}
