//! C15-C20: byte hashers, Rescue hashers, padding separation, Merkle trees, random coin.

use vcore::*;

pub mod hs {
    pub use vhash::*;
}
pub mod c15;
pub mod c16;
pub mod c17;
pub mod c18;
pub mod c19;
pub mod c20;

pub fn props() -> Vec<Prop> {
    vref::field::startup_selfcheck();
    vec![c15::prop(), c16::prop(), c17::prop(), c18::prop(), c19::prop(), c20::prop()]
}
