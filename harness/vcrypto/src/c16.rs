//! C16 — Rescue hashers match an independent reference Rescue-Prime implementation.

use vcore::*;
use vfield::*;
use vref::field::*;
use vref::rescue::Params;
use winter_crypto::hashers::{Rp64_256, RpJive64_256};
use winter_crypto::{ElementHasher, Hasher};
use winter_math::fields::f64::BaseElement as B64;
use winter_math::FieldElement;

use crate::hs::*;

pub fn prop() -> Prop {
    Prop {
        id: "C16",
        level: "exploration",
        rule: "permutation cases = 12- / 8-lane states for Rp64_256 / RpJive64_256 (apply_permutation, apply_round r) whose lanes are boundary-biased values, Montgomery-limb band elements, multiples of 2^32 and states crafted so that the MDS layer output lands in the unreduced band [p, 2^64); Rp62_248 (private permutation) is driven through merge (8 free lanes) and multi-block hash_elements. hashing cases = hash on byte strings 0..200 bytes (emphasis on multiples of 7 and 7*rate, trailing 0x00/0x01), hash_elements on 0..40 base/extension elements, merge, merge_many (0..10 digests), merge_with_int for v in {0,p-1,p,p+1,2p,2^64-1,..}. Oracle: vref::rescue (u128 arithmetic, exponent S-boxes, matrix MDS, snapshotted constants). Non-trivial = a lane in a boundary band, or input length a multiple of the rate, or >= 2 permutations needed; distinct = hash of the input.",
        assumptions: vec![
            "round constants and MDS matrices are snapshotted from the pinned commit into the harness (vref/src/rescue_consts.rs); the pub const tables of Rp64_256 / RpJive64_256 are additionally compared with the snapshot",
            "where the rustdoc is silent the reference follows the pinned behaviour: Jive sponge writes the padding 1,0,.. over the unused rate lanes of the last block and sets capacity[0] = 1 iff the length is not a multiple of the rate",
            "output lanes must be canonical representations (lane == new(lane.as_int())): digests are compared by raw representation in Merkle verification",
        ],
        subs: vec![
            Sub::exhaustive("constants", constants),
            Sub::gen("permutation64", permutation64, 64, 100_000, 3_000_000),
            Sub::gen("hashing", hashing, 200, 200_000, 6_000_000),
        ],
        required: vec!["band_lane", "mds_output_band", "rate_multiple", "two_permutations", "fn:hash", "fn:hash_elements", "fn:merge", "fn:merge_many", "fn:merge_with_int", "hasher:Rp64_256", "hasher:RpJive64_256", "hasher:Rp62_248", "int_ge_modulus", "hash_len_multiple_of_7", "ext_elements"],
        required_thorough: vec![],
    }
}

fn constants(ex: &mut Ex) {
    let p64 = vref::rescue::rp64_256();
    let pj = vref::rescue::rp_jive64_256();
    let mut n = 0u64;
    macro_rules! table {
        ($imp:expr, $snap:expr, $what:expr) => {
            for (i, row) in $imp.iter().enumerate() {
                for (j, e) in row.iter().enumerate() {
                    n += 1;
                    ex.case(fnv_of(&($what, i, j)), true);
                    if e.as_int() as u128 != $snap[i][j] {
                        ex.fail(&format!("constant-differs:{}", $what), format!("{}[{i}][{j}] = {} but the published table has {}", $what, e.as_int(), $snap[i][j]), json!({"table": $what, "row": i, "col": j}));
                    }
                }
            }
        };
    }
    table!(Rp64_256::MDS, p64.mds, "Rp64_256::MDS");
    table!(Rp64_256::ARK1, p64.ark1, "Rp64_256::ARK1");
    table!(Rp64_256::ARK2, p64.ark2, "Rp64_256::ARK2");
    table!(RpJive64_256::MDS, pj.mds, "RpJive64_256::MDS");
    table!(RpJive64_256::ARK1, pj.ark1, "RpJive64_256::ARK1");
    table!(RpJive64_256::ARK2, pj.ark2, "RpJive64_256::ARK2");
    // MDS * INV_MDS = I with reference arithmetic
    for (mds, inv, w, what) in [
        (Rp64_256::MDS.iter().map(|r| r.to_vec()).collect::<Vec<_>>(), Rp64_256::INV_MDS.iter().map(|r| r.to_vec()).collect::<Vec<_>>(), 12usize, "Rp64_256"),
        (RpJive64_256::MDS.iter().map(|r| r.to_vec()).collect::<Vec<_>>(), RpJive64_256::INV_MDS.iter().map(|r| r.to_vec()).collect::<Vec<_>>(), 8usize, "RpJive64_256"),
    ] {
        for i in 0..w {
            for j in 0..w {
                let mut acc = 0u128;
                for k in 0..w {
                    acc = addmod(acc, mulmod(mds[i][k].as_int() as u128, inv[k][j].as_int() as u128, P64), P64);
                }
                n += 1;
                ex.case(fnv_of(&(what, "inv", i, j)), true);
                if acc != (i == j) as u128 {
                    ex.fail(&format!("mds-inverse:{what}"), format!("{what}: (MDS * INV_MDS)[{i}][{j}] = {acc}"), json!({"hasher": what, "i": i, "j": j}));
                }
            }
        }
    }
    // circulant structure documented for the 12x12 matrix
    ex.space(json!({"tables_compared_with_snapshot": 6, "entries": n}));
    ex.sample(json!({"Rp64_256::MDS[0]": p64.mds[0].iter().map(|x| x.to_string()).collect::<Vec<_>>()}));
}

/// a lane for a 64-bit Rescue state together with its reference value
fn gen_lane(s: &mut Src, rec: &mut Rec) -> (B64, u128) {
    match s.below(8) {
        0 | 1 => {
            let (b, v, _) = F64::repr_leaf(s).unwrap();
            rec.class("band_lane");
            rec.nontrivial();
            (b, v)
        },
        2 => {
            let v = ((s.below(1 << 32) as u128) << 32) % P64;
            rec.class("band_lane");
            rec.nontrivial();
            (B64::new(v as u64), v)
        },
        3 => (B64::ZERO, 0),
        4 => {
            let v = gen_int::<F64>(s);
            (B64::new(v as u64), v)
        },
        _ => {
            let v = s.u64() as u128 % P64;
            (B64::new(v as u64), v)
        },
    }
}

/// state whose S-box output makes one MDS output lane land in the band [p, 2^64) before the final reduction
fn mds_band_state(s: &mut Src, params: &Params, rec: &mut Rec) -> Option<(Vec<B64>, Vec<u128>)> {
    let w = params.width;
    let j = s.below(w as u64) as usize; // the only non-zero lane
    let r = s.below(w as u64) as usize; // target output lane
    let c = params.mds[r][j];
    let k = s.below(c as u64) as u128;
    let m = P64;
    let delta = s.below((1u64 << 32) - 64) as u128;
    // want c * L = k * 2^64 + t with t + k (2^32 - 1) in [p, 2^64)
    let t_min = m.checked_sub(k * ((1u128 << 32) - 1))?;
    let target = (k << 64) + t_min + delta;
    let limb = target.div_ceil(c);
    if limb >= m {
        return None;
    }
    let prod = c * limb;
    let (hi, lo) = (prod >> 64, prod & (u64::MAX as u128));
    let res = lo + hi * ((1u128 << 32) - 1);
    if !(res >= m && res < (1u128 << 64)) {
        return None;
    }
    rec.class("mds_output_band");
    rec.nontrivial();
    // value with Montgomery limb `limb`, then its alpha-th root
    let rinv = invmod((1u128 << 64) % m, m);
    let value = mulmod(limb, rinv, m);
    let root = powmod(value, params.inv_alpha, m);
    let mut st = vec![B64::ZERO; w];
    let mut sv = vec![0u128; w];
    st[j] = B64::new(root as u64);
    sv[j] = root;
    Some((st, sv))
}

fn check_state(name: &str, what: &str, got: &[B64], want: &[u128], input: &[u128]) -> CaseResult {
    let g: Vec<u128> = got.iter().map(|e| e.as_int() as u128).collect();
    ensure!(g == want, format!("permutation-wrong:{name}:{what}"), "{name} {what} on state {input:?}: got {g:?} but the reference Rescue-Prime round function gives {want:?}");
    for (i, e) in got.iter().enumerate() {
        ensure!(*e == B64::new(e.as_int()), format!("permutation-noncanonical-output:{name}:{what}"), "{name} {what} on state {input:?}: output lane {i} has value {} but a non-canonical internal representation {} (compares unequal to the same value)", e.as_int(), e.inner());
    }
    Ok(())
}

fn permutation64(s: &mut Src, rec: &mut Rec) -> CaseResult {
    let jive = s.bool();
    let params = if jive { vref::rescue::rp_jive64_256() } else { vref::rescue::rp64_256() };
    let name = params.name;
    rec.class(&format!("hasher:{name}"));
    let w = params.width;
    let (st, sv) = match if s.chance(1, 4) { mds_band_state(s, &params, rec) } else { None } {
        Some(x) => x,
        None => {
            let mut a = vec![];
            let mut b = vec![];
            for _ in 0..w {
                let (e, v) = gen_lane(s, rec);
                a.push(e);
                b.push(v);
            }
            (a, b)
        },
    };
    let round: Option<usize> = if s.bool() { Some(s.below(7) as usize) } else { None };
    rec.set_fp(&(name, &sv, round));
    rec.describe(|| json!({"hasher": name, "state": sv.iter().map(|x| x.to_string()).collect::<Vec<_>>(), "round": round}));
    let mut want = sv.clone();
    match round {
        Some(r) => params.round(&mut want, r),
        None => params.permute(&mut want),
    }
    let what = if round.is_some() { "apply_round" } else { "apply_permutation" };
    if jive {
        let mut arr: [B64; 8] = core::array::from_fn(|i| st[i]);
        match round {
            Some(r) => RpJive64_256::apply_round(&mut arr, r),
            None => RpJive64_256::apply_permutation(&mut arr),
        }
        check_state(name, what, &arr, &want, &sv)?;
        // Jive summation
        let init: [B64; 8] = core::array::from_fn(|i| st[i]);
        let d = RpJive64_256::apply_jive_summation(&init, &arr);
        let wd: Vec<u128> = (0..4).map(|i| addmod(addmod(sv[i], sv[4 + i], P64), addmod(want[i], want[4 + i], P64), P64)).collect();
        let gd: Vec<u128> = d.as_elements().iter().map(|e| e.as_int() as u128).collect();
        ensure!(gd == wd, "jive-summation-wrong", "apply_jive_summation: got {gd:?}, expected {wd:?}");
    } else {
        let mut arr: [B64; 12] = core::array::from_fn(|i| st[i]);
        match round {
            Some(r) => Rp64_256::apply_round(&mut arr, r),
            None => Rp64_256::apply_permutation(&mut arr),
        }
        check_state(name, what, &arr, &want, &sv)?;
    }
    Ok(())
}

fn he<X: HS, E: FieldElement<BaseField = <X::S as Spec>::B>>(s: &mut Src, rec: &mut Rec, params: &Params) -> (RefD, RefD, String) {
    let n = match s.below(6) {
        0 => 0,
        1 => s.pick_copy(&[8u64, 16, 24, 4, 12]) / E::EXTENSION_DEGREE as u64,
        _ => s.range(0, 40 / E::EXTENSION_DEGREE as u64),
    } as usize;
    let mut elems: Vec<E> = vec![];
    let mut flat: Vec<u128> = vec![];
    for _ in 0..n {
        let (e, v) = gen_elem::<X::S, E>(s);
        elems.push(e);
        flat.extend(v);
    }
    rec.class_if(E::EXTENSION_DEGREE > 1, "ext_elements");
    rec.class_if(!flat.is_empty() && flat.len() % params.rate_width == 0, "rate_multiple");
    rec.class_if(flat.len() > params.rate_width, "two_permutations");
    if flat.len() >= params.rate_width {
        rec.nontrivial();
    }
    (obs::<X>(&<X::H as ElementHasher>::hash_elements(&elems)), ref_hash_elements::<X>(&flat), format!("hash_elements({} base values: {:?}..)", flat.len(), &flat[..flat.len().min(4)]))
}

/// reference view of an implementation digest; a digest whose internal representation is not the
/// canonical one for its value (it would compare unequal to an equal digest) is reported as such
fn obs<X: HS>(d: &<X::H as Hasher>::Digest) -> RefD {
    let r = X::to_ref(d);
    if X::from_ref(&r) != *d {
        RefD::Bytes(format!("NON-CANONICAL REPRESENTATION of {}", show_d(&r)).into_bytes())
    } else {
        r
    }
}

fn hashing(s: &mut Src, rec: &mut Rec) -> CaseResult {
    let idx = 9 + s.below(3);
    with_hasher!(idx, X, hashing_x::<X>(s, rec))
}

fn hashing_x<X: HS>(s: &mut Src, rec: &mut Rec) -> CaseResult {
    let params = X::params().unwrap();
    rec.class(&format!("hasher:{}", X::NAME));
    let func = s.below(6);
    let fname = ["hash", "hash_elements", "merge", "merge_many", "merge_with_int", "merge_vs_hash_elements"][func as usize];
    rec.class(&format!("fn:{}", if func == 5 { "merge" } else { fname }));
    let rate = params.rate_width;
    let (got, want, desc): (Result<RefD, PanicInfo>, RefD, String) = match func {
        0 => {
            let n = match s.below(8) {
                0 => 0,
                1 => 7 * s.range(1, 20),
                2 => 7 * rate as u64 * s.range(1, 3),
                3 => 7 * rate as u64 * s.range(1, 3) + s.range(1, 6),
                4 => s.range(57, 200),
                _ => s.range(0, 200),
            } as usize;
            let mut data = s.bytes(n);
            if n > 0 && s.chance(1, 3) {
                let k = s.range(1, 3.min(n as u64)) as usize;
                let fill = s.pick_copy(&[0u8, 1]);
                for b in data[n - k..].iter_mut() {
                    *b = fill;
                }
            }
            rec.class_if(n > 0 && n % 7 == 0, "hash_len_multiple_of_7");
            let nel = n.div_ceil(7);
            rec.class_if(nel > 0 && nel % rate == 0, "rate_multiple");
            rec.class_if(nel > rate, "two_permutations");
            if nel >= rate {
                rec.nontrivial();
            }
            let h: String = data.iter().take(24).map(|x| format!("{x:02x}")).collect();
            (catch(|| obs::<X>(&<X::H as Hasher>::hash(&data))), ref_hash::<X>(&data), format!("hash({n} bytes {h}..)"))
        },
        1 => {
            let (g, w, d) = match s.below(3) {
                0 => he::<X, <X::S as Spec>::B>(s, rec, &params),
                1 => he::<X, Q<<X::S as Spec>::B>>(s, rec, &params),
                _ => he::<X, C<<X::S as Spec>::B>>(s, rec, &params),
            };
            (Ok(g), w, d)
        },
        2 | 5 => {
            let a = gen_digest::<X>(s);
            let b = gen_digest::<X>(s);
            rec.nontrivial();
            rec.class("rate_multiple");
            let got = catch(|| obs::<X>(&<X::H as Hasher>::merge(&[X::from_ref(&a), X::from_ref(&b)])));
            if func == 5 && !params.jive {
                // sponge variants: merging two digests equals hashing their eight elements
                let (RefD::Elems(x), RefD::Elems(y)) = (&a, &b) else { unreachable!() };
                let all: Vec<<X::S as Spec>::B> = x.iter().chain(y.iter()).map(|v| <X::S as Spec>::from_int(*v)).collect();
                let he = obs::<X>(&<X::H as ElementHasher>::hash_elements(&all));
                (got, he, format!("merge({}, {}) vs hash_elements of the same eight elements", show_d(&a), show_d(&b)))
            } else {
                (got, ref_merge::<X>(&a, &b), format!("merge({}, {})", show_d(&a), show_d(&b)))
            }
        },
        3 => {
            let n = s.range(0, 10) as usize;
            let ds: Vec<RefD> = (0..n).map(|_| gen_digest::<X>(s)).collect();
            let imp: Vec<_> = ds.iter().map(|d| X::from_ref(d)).collect();
            rec.class_if(n > 0 && (4 * n) % rate == 0, "rate_multiple");
            rec.class_if(4 * n > rate, "two_permutations");
            if n >= 2 {
                rec.nontrivial();
            }
            (catch(|| obs::<X>(&<X::H as Hasher>::merge_many(&imp))), ref_merge_many::<X>(&ds), format!("merge_many({n} digests)"))
        },
        _ => {
            let seed = gen_digest::<X>(s);
            let p = params.p;
            let v: u64 = match s.below(9) {
                0 => 0,
                1 => (p - 1) as u64,
                2 => p as u64,
                3 => (p + 1) as u64,
                4 => (2 * p).min(u64::MAX as u128) as u64,
                5 => u64::MAX,
                6 => ((p as u64) as u128 * s.range(1, 3) as u128).min(u64::MAX as u128) as u64,
                _ => s.u64(),
            };
            rec.class_if(v as u128 >= p, "int_ge_modulus");
            if v as u128 >= p {
                rec.nontrivial();
            }
            (catch(|| obs::<X>(&<X::H as Hasher>::merge_with_int(X::from_ref(&seed), v))), ref_merge_with_int::<X>(&seed, v), format!("merge_with_int({}, {v})", show_d(&seed)))
        },
    };
    rec.set_fp(&(X::NAME, func, &desc, &want));
    rec.describe(|| json!({"hasher": X::NAME, "function": fname, "input": desc}));
    let got = match got {
        Ok(g) => g,
        Err(pn) => return Err(Fail::new(format!("{}:{}", pn.key(), X::NAME), format!("{} {desc} panicked at {}: {}", X::NAME, pn.location, pn.message))),
    };
    ensure!(got == want, format!("rescue-wrong:{}:{fname}", X::NAME), "{} {desc}: digest {} but the reference gives {}", X::NAME, show_d(&got), show_d(&want));
    // digests must be in canonical representation
    let d = X::from_ref(&want);
    let again = X::to_ref(&d);
    ensure!(again == want, "harness-digest-conversion", "digest conversion is not the identity");
    Ok(())
}
