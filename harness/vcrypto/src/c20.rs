//! C20 — public-coin randomness is deterministic and well-formed (model-based).

use vcore::*;
use vfield::*;
use winter_crypto::{DefaultRandomCoin, RandomCoin};
use winter_math::FieldElement;

use crate::hs::*;

pub fn prop() -> Prop {
    Prop {
        id: "C20",
        level: "exploration",
        rule: "case = history for one of the 12 (hasher, field) instances: new(0..20 seed elements) followed by up to 30 operations from {reseed(digest), draw::<base|quad|cube>, draw_integers(k, 2^d, nonce) with 0 <= k < 2^d <= 2^24, check_leading_zeros(v)}. Oracle: a reference coin (seed = hash_elements(seed), next = merge_with_int(seed, ++counter), reseed = merge(seed, data), counter reset) built from the reference hashers of C15/C16; every output must coincide; drawn elements must have coefficients below the modulus; integer draws must have exactly k values below 2^d; a second coin fed the same history must agree; a reseed with a different digest must change the next draw. Non-trivial = the history contains a reseed followed by a draw; distinct = hash of (instance, history).",
        assumptions: vec![
            "the reference hash functions are those validated in C15/C16 (primitive on the documented layout / vref::rescue)",
            "draw_integers preconditions from the rustdoc are respected (power-of-two domain, k < domain); k = 0 is inside that domain",
            "sensitivity to a different reseed digest relies on collision resistance (probability of an accidental equality < 2^-60)",
        ],
        subs: vec![Sub::gen("histories", histories, 256, 12_000, 150_000)],
        required: vec!["op:reseed", "op:draw_base", "op:draw_quad", "op:draw_cube", "op:draw_integers", "op:check_leading_zeros", "rejection_retry", "reseed_then_draw", "hasher:Blake3_192<f128>", "hasher:Rp62_248", "draw_integers_k_0"],
        required_thorough: vec![],
    }
}

fn histories(s: &mut Src, rec: &mut Rec) -> CaseResult {
    let idx = s.below(NUM_HASHERS);
    with_hasher!(idx, X, run::<X>(s, rec))
}

struct RefCoin<X: HS> {
    seed: RefD,
    counter: u64,
    hashes: u64,
    _x: core::marker::PhantomData<X>,
}
impl<X: HS> RefCoin<X> {
    fn new(seed_vals: &[u128]) -> Self {
        RefCoin { seed: ref_hash_elements::<X>(seed_vals), counter: 0, hashes: 0, _x: core::marker::PhantomData }
    }
    fn next(&mut self) -> RefD {
        self.counter += 1;
        self.hashes += 1;
        ref_merge_with_int::<X>(&self.seed, self.counter)
    }
    fn reseed(&mut self, d: &RefD) {
        self.seed = ref_merge::<X>(&self.seed, d);
        self.counter = 0;
    }
    /// coefficients of the drawn element of extension degree `deg`, or None after 1000 failures
    fn draw(&mut self, deg: usize) -> Option<Vec<u128>> {
        let nb = (<X::S as Spec>::BITS as usize).div_ceil(8).next_power_of_two();
        for _ in 0..1000 {
            let d = self.next();
            let bytes = ref_as_bytes::<X>(&d);
            let mut vals = vec![];
            let mut ok = true;
            for c in 0..deg {
                let mut b = [0u8; 16];
                b[..nb].copy_from_slice(&bytes[c * nb..(c + 1) * nb]);
                let v = u128::from_le_bytes(b);
                if v >= <X::S as Spec>::P {
                    ok = false;
                }
                vals.push(v);
            }
            if ok {
                return Some(vals);
            }
        }
        None
    }
    fn draw_integers(&mut self, k: usize, domain: usize, nonce: u64) -> Vec<usize> {
        self.seed = ref_merge_with_int::<X>(&self.seed, nonce);
        self.counter = 0;
        (0..k)
            .map(|_| {
                let d = self.next();
                let b = ref_as_bytes::<X>(&d);
                (u64::from_le_bytes(b[..8].try_into().unwrap()) & (domain as u64 - 1)) as usize
            })
            .collect()
    }
    fn leading_zeros(&self, v: u64) -> u32 {
        let d = ref_merge_with_int::<X>(&self.seed, v);
        let b = ref_as_bytes::<X>(&d);
        u64::from_le_bytes(b[..8].try_into().unwrap()).trailing_zeros()
    }
}

fn draw_imp<X: HS, E: FieldElement<BaseField = <X::S as Spec>::B>>(c: &mut DefaultRandomCoin<X::H>) -> Option<Vec<u128>> {
    c.draw::<E>().ok().map(|e| to_ints::<X::S, E>(&e))
}

fn run<X: HS>(s: &mut Src, rec: &mut Rec) -> CaseResult {
    let name = X::NAME;
    rec.class(&format!("hasher:{name}"));
    let nseed = s.range(0, 20) as usize;
    let mut seed_e = vec![];
    let mut seed_v = vec![];
    for _ in 0..nseed {
        let (e, v) = gen_elem::<X::S, <X::S as Spec>::B>(s);
        seed_e.push(e);
        seed_v.push(v[0]);
    }
    let mut a = DefaultRandomCoin::<X::H>::new(&seed_e);
    let mut b = DefaultRandomCoin::<X::H>::new(&seed_e);
    let mut r = RefCoin::<X>::new(&seed_v);
    let nops = s.range(1, 30);
    let mut log: Vec<String> = vec![format!("new({nseed} elements)")];
    let mut reseeded = false;
    let cube_ok = <X::S as Spec>::CUBE.is_some();
    for step in 0..nops {
        let op = s.weighted(&[5, 5, 3, 3, 5, 3]);
        macro_rules! fail {
            ($key:expr, $($arg:tt)*) => {{
                rec.redescribe(|| json!({"instance": name, "history": log}));
                return Err(Fail::new(format!("{}:{}", $key, name), format!("{name} step {step} after {:?}: {}", log.last(), format!($($arg)*))));
            }};
        }
        match op {
            0 => {
                rec.class("op:reseed");
                let d = gen_digest::<X>(s);
                log.push(format!("reseed({})", show_d(&d)));
                a.reseed(X::from_ref(&d));
                b.reseed(X::from_ref(&d));
                // sensitivity: a coin reseeded with a different digest must draw differently
                if s.chance(1, 4) {
                    let d2 = gen_digest::<X>(s);
                    if d2 != d {
                        let mut c = DefaultRandomCoin::<X::H>::new(&seed_e);
                        // replay is not possible on the real coin (no clone): compare through the model
                        let mut r2 = RefCoin::<X> { seed: r.seed.clone(), counter: r.counter, hashes: 0, _x: core::marker::PhantomData };
                        r2.reseed(&d2);
                        let mut r1 = RefCoin::<X> { seed: r.seed.clone(), counter: r.counter, hashes: 0, _x: core::marker::PhantomData };
                        r1.reseed(&d);
                        if r1.next() == r2.next() {
                            fail!("reseed-insensitive", "reseeding with {} and with {} leads to the same next value", show_d(&d), show_d(&d2));
                        }
                        let _ = &mut c;
                    }
                }
                r.reseed(&d);
                reseeded = true;
            },
            1 | 2 | 3 => {
                let deg = if op == 3 && !cube_ok { 2 } else { op as usize };
                rec.class(["", "op:draw_base", "op:draw_quad", "op:draw_cube"][deg]);
                if reseeded {
                    rec.class("reseed_then_draw");
                    rec.nontrivial();
                }
                log.push(format!("draw::<degree {deg}>"));
                let before = r.hashes;
                let want = r.draw(deg);
                if r.hashes - before > 1 {
                    rec.class("rejection_retry");
                }
                let (ga, gb) = match deg {
                    1 => (catch(|| draw_imp::<X, <X::S as Spec>::B>(&mut a)), draw_imp::<X, <X::S as Spec>::B>(&mut b)),
                    2 => (catch(|| draw_imp::<X, Q<<X::S as Spec>::B>>(&mut a)), draw_imp::<X, Q<<X::S as Spec>::B>>(&mut b)),
                    _ => (catch(|| draw_imp::<X, C<<X::S as Spec>::B>>(&mut a)), draw_imp::<X, C<<X::S as Spec>::B>>(&mut b)),
                };
                let ga = match ga {
                    Ok(g) => g,
                    Err(pn) => fail!(pn.key(), "draw panicked: {}", pn.message),
                };
                if ga != gb {
                    fail!("coin-nondeterministic", "two coins fed the same history drew {ga:?} and {gb:?}");
                }
                if let Some(v) = &ga {
                    if v.iter().any(|c| *c >= <X::S as Spec>::P) {
                        fail!("draw-invalid-element", "drawn element {v:?} has a coefficient >= p");
                    }
                }
                if ga != want {
                    fail!("draw-differs-from-model", "draw returned {ga:?} but the reference coin gives {want:?}");
                }
            },
            4 => {
                rec.class("op:draw_integers");
                let d = s.range(0, 24) as u32;
                let domain = 1usize << d;
                let k = match s.below(6) {
                    0 => 0,
                    1 => domain - 1,
                    _ => s.below(domain as u64) as usize,
                }
                .min(600);
                rec.class_if(k == 0, "draw_integers_k_0");
                let nonce = s.u64_biased();
                log.push(format!("draw_integers({k}, {domain}, {nonce})"));
                if reseeded {
                    rec.class("reseed_then_draw");
                    rec.nontrivial();
                }
                let want = r.draw_integers(k, domain, nonce);
                let ga = match catch(|| a.draw_integers(k, domain, nonce)) {
                    Ok(Ok(v)) => v,
                    Ok(Err(e)) => fail!("draw_integers-error", "draw_integers({k}, {domain}, {nonce}) returned {e:?}"),
                    Err(pn) => fail!(pn.key(), "draw_integers({k}, {domain}, {nonce}) panicked: {}", pn.message),
                };
                let gb = b.draw_integers(k, domain, nonce).unwrap_or_default();
                if ga.len() != k {
                    fail!("draw_integers-wrong-count", "draw_integers({k}, {domain}, ..) returned {} values", ga.len());
                }
                if ga.iter().any(|v| *v >= domain) {
                    fail!("draw_integers-out-of-domain", "draw_integers({k}, {domain}, ..) returned a value outside the domain");
                }
                if ga != gb {
                    fail!("coin-nondeterministic", "two coins fed the same history drew different integers");
                }
                if ga != want {
                    fail!("draw_integers-differs-from-model", "draw_integers({k}, {domain}, {nonce}) = {:?}.. but the reference coin gives {:?}..", &ga[..ga.len().min(4)], &want[..want.len().min(4)]);
                }
            },
            _ => {
                rec.class("op:check_leading_zeros");
                let v = s.u64_biased();
                log.push(format!("check_leading_zeros({v})"));
                let want = r.leading_zeros(v);
                let got = a.check_leading_zeros(v);
                if got != b.check_leading_zeros(v) {
                    fail!("coin-nondeterministic", "check_leading_zeros differs between two coins");
                }
                if got != want {
                    fail!("check_leading_zeros-wrong", "check_leading_zeros({v}) = {got} but the first eight bytes of the nonce-merged seed have {want} trailing zero bits");
                }
            },
        }
    }
    rec.set_fp(&(name, &seed_v, &log));
    rec.describe(|| json!({"instance": name, "history": log}));
    rec.weight = nops;
    Ok(())
}
