fn main() {
    vcore::main_with(vcrypto::props());
}
