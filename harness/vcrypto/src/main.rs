//! C15-C20: byte hashers, Rescue hashers, padding separation, Merkle trees, random coin.

use vcore::*;

pub mod hs {
    pub use vhash::*;
}
mod c15;
mod c16;
mod c17;
mod c18;
mod c19;
mod c20;

fn main() {
    vref::field::startup_selfcheck();
    let props = vec![c15::prop(), c16::prop(), c17::prop(), c18::prop(), c19::prop(), c20::prop()];
    main_with(props);
}
