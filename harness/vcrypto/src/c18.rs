//! C18 — Merkle trees and their openings are mutually consistent.
//! (The parallel-build clause is decided by the serial/concurrent differential stage of this check (vdet family 'merkle'; evidence key thread_differential).)

use vcore::*;
use winter_crypto::{BatchMerkleProof, Hasher, MerkleTree, VectorCommitment};
use winter_utils::{Deserializable, Serializable};

use crate::hs::*;

pub fn prop() -> Prop {
    Prop {
        id: "C18",
        level: "exploration",
        rule: "case = (hasher among the 12 instances; 2^1..2^11 leaves (2^13 thorough, Rescue hashers capped lower); index set: non-empty, duplicate-free, size 1..48 or full, shapes {random, sibling pairs, one subtree, all-left, extremes}; presentation order sorted / reversed / shuffled). Oracle: root = recursive pairwise merge computed by the harness; prove(i) = reference sibling path; prove_batch/verify_batch/get_root agree with the root for every order; from_single_proofs == prove_batch (compared through to_bytes); into_openings == [prove(i)]. Sub-check deep_virtual: one or two openings of a VIRTUAL tree of depth 1..63 (consistent hand-made authentication paths; such a tree cannot be built, but the proof types carry any depth and are read from untrusted bytes): root by folding the paths, from_single_proofs -> get_root = that root, verify_batch accepts, into_openings returns the paths. Non-trivial = >= 4 leaves and >= 2 indexes; distinct = hash of (hasher, leaf seed, size, index list).",
        assumptions: vec![
            "H::merge itself is the subject of C15/C16; here it is the building block of the reference recursion",
            "BatchMerkleProof values are compared through to_bytes() because PartialEq/Clone on BatchMerkleProof<H> require the same bounds on H, which Sha3_256 does not provide",
            "the concurrent builder (leaves > 1024, feature `concurrent`) is compared with the serial one by ./check C06",
        ],
        subs: vec![Sub::gen("trees", trees, 160, 12_000, 400_000), Sub::gen("deep_virtual", deep_virtual, 160, 20_000, 600_000)],
        required: vec!["deep:depth_ge_31", "deep:two_openings", "unsorted_order", "n_gt_1024", "n_2", "full_index_set", "sibling_pairs", "hasher:Rp62_248", "hasher:Sha3_256<f64>", "hasher:Blake3_192<f128>"],
        required_thorough: vec![],
    }
}

fn trees(s: &mut Src, rec: &mut Rec) -> CaseResult {
    let idx = s.below(NUM_HASHERS);
    with_hasher!(idx, X, run::<X>(s, rec))
}

pub fn gen_leaves<X: HS>(seed: u64, n: usize) -> Vec<<X::H as Hasher>::Digest> {
    (0..n)
        .map(|i| {
            let mut b = seed.to_le_bytes().to_vec();
            b.extend_from_slice(&(i as u64).to_le_bytes());
            if X::is_rescue() {
                // cheaper than a Rescue hash per leaf: a digest built from the bytes of a BLAKE3 hash
                let h = blake3::hash(&b);
                let v: Vec<u128> = (0..4).map(|k| u64::from_le_bytes(h.as_bytes()[8 * k..8 * k + 8].try_into().unwrap()) as u128 % <X::S as vfield::Spec>::P).collect();
                X::from_ref(&RefD::Elems(v))
            } else {
                <X::H as Hasher>::hash(&b)
            }
        })
        .collect()
}

/// reference tree: levels[0] = leaves, levels[last] = [root]
pub fn ref_levels<X: HS>(leaves: &[<X::H as Hasher>::Digest]) -> Vec<Vec<<X::H as Hasher>::Digest>> {
    let mut levels = vec![leaves.to_vec()];
    while levels.last().unwrap().len() > 1 {
        let cur = levels.last().unwrap();
        let next: Vec<_> = cur.chunks(2).map(|c| <X::H as Hasher>::merge(&[c[0], c[1]])).collect();
        levels.push(next);
    }
    levels
}
pub fn ref_path<X: HS>(levels: &[Vec<<X::H as Hasher>::Digest>], mut i: usize) -> Vec<<X::H as Hasher>::Digest> {
    let mut path = vec![];
    for l in &levels[..levels.len() - 1] {
        path.push(l[i ^ 1]);
        i >>= 1;
    }
    path
}

pub fn gen_index_set(s: &mut Src, n: usize, rec: &mut Rec) -> Vec<usize> {
    let shape = s.below(6);
    let mut set: Vec<usize> = match shape {
        0 => {
            rec.class("full_index_set");
            (0..n.min(256)).collect()
        },
        1 => {
            rec.class("sibling_pairs");
            let pairs = s.range(1, (n / 2).min(12) as u64) as usize;
            let mut v = vec![];
            for _ in 0..pairs {
                let p = s.below(n as u64 / 2) as usize;
                v.push(2 * p);
                v.push(2 * p + 1);
            }
            v
        },
        2 => {
            // one subtree
            let size = 1usize << s.below((n.ilog2() + 1).min(6) as u64);
            let start = (s.below((n / size) as u64) as usize) * size;
            (start..start + size).collect()
        },
        3 => {
            let k = s.range(1, (n / 2).min(24) as u64) as usize;
            (0..k).map(|_| 2 * s.below(n as u64 / 2) as usize).collect()
        },
        4 => vec![0, n - 1],
        _ => {
            let k = s.range(1, n.min(48) as u64) as usize;
            (0..k).map(|_| s.below(n as u64) as usize).collect()
        },
    };
    set.sort();
    set.dedup();
    match s.below(3) {
        0 => {},
        1 => {
            set.reverse();
            rec.class_if(set.len() > 1, "unsorted_order");
        },
        _ => {
            // Fisher-Yates with choices
            for i in (1..set.len()).rev() {
                let j = s.below(i as u64 + 1) as usize;
                set.swap(i, j);
            }
            rec.class_if(set.windows(2).any(|w| w[0] > w[1]), "unsorted_order");
        },
    }
    set
}

pub fn copy_proof<X: HS>(p: &BatchMerkleProof<X::H>) -> BatchMerkleProof<X::H> {
    BatchMerkleProof::<X::H>::read_from_bytes(&p.to_bytes()).expect("batch proof re-decodes")
}

fn run<X: HS>(s: &mut Src, rec: &mut Rec) -> CaseResult {
    rec.class(&format!("hasher:{}", X::NAME));
    let thorough = std::env::var("VERIF_TIER").map(|t| t == "thorough").unwrap_or(false);
    let max_log = if X::is_rescue() { if thorough { 11 } else { 9 } } else if thorough { 13 } else { 11 };
    let log_n = match s.below(8) {
        0 => 1,
        1 => 2,
        2 if !X::is_rescue() => 11,
        3 => s.range(1, 4),
        _ => s.range(1, max_log),
    } as u32;
    let n = 1usize << log_n;
    rec.class_if(n > 1024, "n_gt_1024");
    rec.class_if(n == 2, "n_2");
    let seed = s.u64();
    let leaves = gen_leaves::<X>(seed, n);
    let levels = ref_levels::<X>(&leaves);
    let root = levels.last().unwrap()[0];
    let tree = match catch(|| MerkleTree::<X::H>::new(leaves.clone())) {
        Ok(Ok(t)) => t,
        Ok(Err(e)) => return Err(Fail::new("tree-new-rejected", format!("MerkleTree::new rejected {n} leaves: {e:?}"))),
        Err(pn) => return Err(Fail::new(pn.key(), format!("MerkleTree::new panicked: {}", pn.message))),
    };
    let set = gen_index_set(s, n, rec);
    if n >= 4 && set.len() >= 2 {
        rec.nontrivial();
    }
    rec.set_fp(&(X::NAME, seed, n, &set));
    rec.describe(|| json!({"hasher": X::NAME, "leaves": n, "indexes": set}));
    let name = X::NAME;
    ensure!(*tree.root() == root, format!("root-differs:{name}"), "{name}: root of a {n}-leaf tree differs from the recursive pairwise hash of the leaves");
    ensure!(tree.depth() == log_n as usize && tree.leaves() == &leaves[..], "tree-accessors", "depth()/leaves() wrong");
    ensure!(VectorCommitment::<X::H>::commitment(&tree) == root && VectorCommitment::<X::H>::domain_len(&tree) == n, "vector-commitment-accessors", "commitment()/domain_len() wrong");

    // single openings
    let mut singles = vec![];
    for &i in &set {
        let (leaf, path) = match catch(|| tree.prove(i)) {
            Ok(Ok(x)) => x,
            other => return Err(Fail::new("prove-failed", format!("{name}: prove({i}) on {n} leaves: {:?}", other.map(|r| r.map(|_| ()))))),
        };
        ensure!(leaf == leaves[i], format!("prove-leaf:{name}"), "prove({i}) returned a different leaf");
        ensure!(path == ref_path::<X>(&levels, i), format!("prove-path:{name}"), "{name}: prove({i}) on {n} leaves returned a path different from the sibling path of the reference tree");
        ensure!(MerkleTree::<X::H>::verify(root, i, leaf, &path).is_ok(), format!("verify-rejects-honest:{name}"), "{name}: verify rejects the honest opening of leaf {i} of {n}");
        ensure!(<MerkleTree<X::H> as VectorCommitment<X::H>>::verify(root, i, leaf, &path).is_ok(), "vc-verify-rejects-honest", "VectorCommitment::verify rejects the honest opening");
        ensure!(<MerkleTree<X::H> as VectorCommitment<X::H>>::get_proof_domain_len(&path) == n, "vc-proof-domain-len", "get_proof_domain_len wrong");
        singles.push((leaf, path));
    }
    // batch opening in the presented order
    let (bleaves, proof) = match catch(|| tree.prove_batch(&set)) {
        Ok(Ok(x)) => x,
        Ok(Err(e)) => return Err(Fail::new(format!("prove_batch-rejected:{name}"), format!("{name}: prove_batch({set:?}) on {n} leaves: {e:?}"))),
        Err(pn) => return Err(Fail::new(pn.key(), format!("{name}: prove_batch({set:?}) on {n} leaves panicked: {}", pn.message))),
    };
    ensure!(bleaves.len() == set.len() && bleaves.iter().zip(&set).all(|(l, i)| *l == leaves[*i]), format!("prove_batch-leaves:{name}"), "{name}: prove_batch({set:?}) returned leaves in an order different from the index list");
    ensure!(proof.depth as u32 == log_n, "prove_batch-depth", "batch proof depth {} for {n} leaves", proof.depth);
    match catch(|| proof.get_root(&set, &bleaves)) {
        Ok(Ok(r)) => ensure!(r == root, format!("get_root-differs:{name}"), "{name}: get_root for indexes {set:?} on {n} leaves differs from the tree root"),
        Ok(Err(e)) => return Err(Fail::new(format!("get_root-rejects-honest:{name}"), format!("{name}: get_root({set:?}) on {n} leaves: {e:?}"))),
        Err(pn) => return Err(Fail::new(pn.key(), format!("get_root panicked: {}", pn.message))),
    }
    ensure!(MerkleTree::<X::H>::verify_batch(&root, &set, &bleaves, &proof).is_ok(), format!("verify_batch-rejects-honest:{name}"), "{name}: verify_batch rejects the honest batch opening for {set:?} on {n} leaves");
    ensure!(<MerkleTree<X::H> as VectorCommitment<X::H>>::verify_many(root, &set, &bleaves, &proof).is_ok(), "vc-verify_many-rejects-honest", "verify_many rejects the honest opening");
    ensure!(<MerkleTree<X::H> as VectorCommitment<X::H>>::get_multiproof_domain_len(&proof) == n, "vc-multiproof-domain-len", "get_multiproof_domain_len wrong");
    // open_many = prove_batch
    let (l2, p2) = <MerkleTree<X::H> as VectorCommitment<X::H>>::open_many(&tree, &set).map_err(|e| Fail::new("open_many-rejected", format!("{e:?}")))?;
    ensure!(l2 == bleaves && p2.to_bytes() == proof.to_bytes(), "open_many-differs", "open_many differs from prove_batch");
    // batch proof assembled from single openings equals the direct one
    let assembled = match catch(|| BatchMerkleProof::<X::H>::from_single_proofs(&singles, &set)) {
        Ok(a) => a,
        Err(pn) => return Err(Fail::new(pn.key(), format!("{name}: from_single_proofs({set:?}) panicked: {}", pn.message))),
    };
    ensure!(assembled.to_bytes() == proof.to_bytes(), format!("from_single_proofs-differs:{name}"), "{name}: from_single_proofs for indexes {set:?} on {n} leaves differs from prove_batch");
    // expansion into single openings
    match catch(|| copy_proof::<X>(&proof).into_openings(&bleaves, &set)) {
        Ok(Ok(openings)) => {
            ensure!(openings == singles, format!("into_openings-differs:{name}"), "{name}: into_openings for {set:?} on {n} leaves differs from the single openings");
        },
        Ok(Err(e)) => return Err(Fail::new(format!("into_openings-rejects-honest:{name}"), format!("{name}: into_openings({set:?}): {e:?}"))),
        Err(pn) => return Err(Fail::new(pn.key(), format!("into_openings panicked: {}", pn.message))),
    }
    rec.weight = (set.len() + 1) as u64;
    Ok(())
}


// OPENINGS OF A VIRTUAL DEEP TREE
// ================================================================================================

pub fn deep_virtual(s: &mut Src, rec: &mut Rec) -> CaseResult {
    let idx = s.below(NUM_HASHERS);
    with_hasher!(idx, X, run_deep::<X>(s, rec))
}

fn fold<X: HS>(leaf: <X::H as Hasher>::Digest, path: &[<X::H as Hasher>::Digest], mut index: u64) -> Vec<<X::H as Hasher>::Digest> {
    // nodes on the way up: [leaf, level 1, ..., root]
    let mut out = vec![leaf];
    let mut node = leaf;
    for sib in path {
        node = if index & 1 == 0 { <X::H as Hasher>::merge(&[node, *sib]) } else { <X::H as Hasher>::merge(&[*sib, node]) };
        out.push(node);
        index >>= 1;
    }
    out
}

fn run_deep<X: HS>(s: &mut Src, rec: &mut Rec) -> CaseResult {
    let name = X::NAME;
    let depth = match s.below(6) {
        0 => s.pick_copy(&[30u32, 31, 32, 33, 63]),
        1 => s.range(31, 63) as u32,
        _ => s.range(1, 63) as u32,
    };
    rec.class_if(depth >= 31, "deep:depth_ge_31");
    let mut mix = vfield::Mix(s.u64());
    let mut digest = |s: &mut Src| -> <X::H as Hasher>::Digest { <X::H as Hasher>::hash(&[mix.0 as u8, s.u8(), (mix.int::<<X as HS>::S>() & 0xff) as u8, (mix.int::<<X as HS>::S>() >> 8) as u8, depth as u8]) };
    let max_index = if depth >= 63 { (1u64 << 63) - 1 } else { (1u64 << depth) - 1 };
    let i = match s.below(4) {
        0 => 0,
        1 => max_index,
        _ => s.u64() & max_index,
    };
    let two = depth >= 2 && s.bool();
    let leaf_i = digest(s);
    let mut path_i: Vec<_> = (0..depth).map(|_| digest(s)).collect();
    let mut singles = vec![];
    let mut set = vec![];
    let root;
    if two {
        rec.class("deep:two_openings");
        // a second index whose path joins the first one at level b (its highest differing bit)
        let b = s.below(depth as u64) as u32;
        let low = if b == 0 { 0 } else { s.u64() & ((1u64 << b) - 1) };
        let j = ((i >> (b + 1)) << (b + 1)) | (((i >> b) & 1) ^ 1) << b | low;
        let leaf_j = digest(s);
        let mut path_j: Vec<_> = (0..depth).map(|_| digest(s)).collect();
        // below the junction the paths are independent; at the junction each one's sibling is the other's
        // subtree node; above it they coincide
        let nodes_j = fold::<X>(leaf_j, &path_j[..b as usize], j);
        let nodes_i = fold::<X>(leaf_i, &path_i[..b as usize], i);
        path_i[b as usize] = nodes_j[b as usize];
        path_j[b as usize] = nodes_i[b as usize];
        for l in (b as usize + 1)..depth as usize {
            path_j[l] = path_i[l];
        }
        let ri = *fold::<X>(leaf_i, &path_i, i).last().unwrap();
        let rj = *fold::<X>(leaf_j, &path_j, j).last().unwrap();
        ensure!(ri == rj, "harness-deep-paths", "hand-made paths do not meet in one root");
        root = ri;
        // sorted and unsorted presentation
        if s.bool() == (i < j) {
            singles.push((leaf_i, path_i.clone()));
            singles.push((leaf_j, path_j.clone()));
            set.push(i as usize);
            set.push(j as usize);
        } else {
            singles.push((leaf_j, path_j.clone()));
            singles.push((leaf_i, path_i.clone()));
            set.push(j as usize);
            set.push(i as usize);
        }
    } else {
        root = *fold::<X>(leaf_i, &path_i, i).last().unwrap();
        singles.push((leaf_i, path_i.clone()));
        set.push(i as usize);
    }
    rec.nontrivial = depth >= 2;
    rec.set_fp(&(name, depth, &set, s.consumed()));
    rec.describe(|| json!({"hasher": name, "depth": depth, "indexes": set}));
    let ctx = format!("{name}, virtual tree of depth {depth}, indexes {set:?}");
    let leaves: Vec<_> = singles.iter().map(|x| x.0).collect();
    // single openings verify
    for (k, (leaf, path)) in singles.iter().enumerate() {
        let r = catch(|| MerkleTree::<X::H>::verify(root, set[k], *leaf, path));
        match r {
            Ok(Ok(())) => {},
            Ok(Err(e)) => return Err(Fail::new(format!("deep-single-opening-rejected:{name}"), format!("a consistent single opening is rejected: {e:?} ({ctx})"))),
            Err(pn) => return Err(Fail::new(pn.key(), format!("MerkleTree::verify panicked: {} ({ctx})", pn.message))),
        }
    }
    let batch = match catch(|| BatchMerkleProof::<X::H>::from_single_proofs(&singles, &set)) {
        Ok(b) => b,
        Err(pn) => return Err(Fail::new(pn.key(), format!("from_single_proofs panicked: {} ({ctx})", pn.message))),
    };
    ensure!(batch.depth as u32 == depth, "deep-batch-depth", "from_single_proofs produced depth {} ({ctx})", batch.depth);
    match catch(|| batch.get_root(&set, &leaves)) {
        Ok(Ok(r)) => ensure!(r == root, format!("deep-get_root-wrong:{name}"), "get_root of a consistent batch opening is not the root obtained by folding the paths ({ctx})"),
        Ok(Err(e)) => return Err(Fail::new(format!("deep-get_root-rejects:{name}"), format!("get_root rejects a consistent batch opening: {e:?} ({ctx})"))),
        Err(pn) => return Err(Fail::new(pn.key(), format!("get_root panicked: {} ({ctx})", pn.message))),
    }
    match catch(|| MerkleTree::<X::H>::verify_batch(&root, &set, &leaves, &batch)) {
        Ok(Ok(())) => {},
        Ok(Err(e)) => return Err(Fail::new(format!("deep-verify_batch-rejects:{name}"), format!("verify_batch rejects a consistent batch opening: {e:?} ({ctx})"))),
        Err(pn) => return Err(Fail::new(pn.key(), format!("verify_batch panicked: {} ({ctx})", pn.message))),
    }
    match catch(|| copy_proof::<X>(&batch).into_openings(&leaves, &set)) {
        Ok(Ok(openings)) => ensure!(openings == singles, format!("deep-into_openings-differs:{name}"), "into_openings does not return the single openings the batch proof was assembled from ({ctx})"),
        Ok(Err(e)) => return Err(Fail::new(format!("deep-into_openings-rejects:{name}"), format!("into_openings rejects a consistent batch opening: {e:?} ({ctx})"))),
        Err(pn) => return Err(Fail::new(pn.key(), format!("into_openings panicked: {} ({ctx})", pn.message))),
    }
    Ok(())
}
