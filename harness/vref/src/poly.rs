//! Reference polynomial arithmetic written from the definitions: polynomials over Fp (used by the
//! extension-field inverse) and polynomials over any field context (coefficients are `Elt`s).
//! Coefficients are stored lowest degree first.

use crate::field::*;

// OVER Fp
// ================================================================================================

pub fn trim(mut a: Vec<u128>) -> Vec<u128> {
    while a.len() > 1 && *a.last().unwrap() == 0 {
        a.pop();
    }
    if a.is_empty() {
        a.push(0);
    }
    a
}
pub fn sub_p(a: &[u128], b: &[u128], p: u128) -> Vec<u128> {
    let n = a.len().max(b.len());
    let mut out = vec![0; n];
    for i in 0..n {
        let x = a.get(i).copied().unwrap_or(0);
        let y = b.get(i).copied().unwrap_or(0);
        out[i] = submod(x, y, p);
    }
    trim(out)
}
pub fn mul_p(a: &[u128], b: &[u128], p: u128) -> Vec<u128> {
    let mut out = vec![0; a.len() + b.len() - 1];
    for (i, x) in a.iter().enumerate() {
        for (j, y) in b.iter().enumerate() {
            out[i + j] = addmod(out[i + j], mulmod(*x, *y, p), p);
        }
    }
    trim(out)
}
/// quotient and remainder; `b` must be non-zero
pub fn divrem_p(a: &[u128], b: &[u128], p: u128) -> (Vec<u128>, Vec<u128>) {
    let b = trim(b.to_vec());
    let mut r = trim(a.to_vec());
    assert!(!(b.len() == 1 && b[0] == 0));
    if r.len() < b.len() {
        return (vec![0], r);
    }
    let mut q = vec![0u128; r.len() - b.len() + 1];
    let lead_inv = invmod(*b.last().unwrap(), p);
    while r.len() >= b.len() && !(r.len() == 1 && r[0] == 0) {
        let shift = r.len() - b.len();
        let c = mulmod(*r.last().unwrap(), lead_inv, p);
        q[shift] = c;
        for (i, y) in b.iter().enumerate() {
            r[shift + i] = submod(r[shift + i], mulmod(c, *y, p), p);
        }
        // leading coefficient is now zero
        r.pop();
        r = trim(r);
        if r.len() < b.len() {
            break;
        }
    }
    (trim(q), trim(r))
}

// OVER A FIELD CONTEXT
// ================================================================================================

pub type Poly = Vec<Elt>;

pub fn ptrim(c: &Ctx, mut a: Poly) -> Poly {
    while a.len() > 1 && c.is_zero(a.last().unwrap()) {
        a.pop();
    }
    if a.is_empty() {
        a.push(c.zero());
    }
    a
}
/// degree of a polynomial, 0 for the zero polynomial
pub fn pdeg(c: &Ctx, a: &[Elt]) -> usize {
    ptrim(c, a.to_vec()).len() - 1
}
/// evaluation by explicit powers: sum c_j x^j
pub fn peval(c: &Ctx, a: &[Elt], x: &Elt) -> Elt {
    let mut acc = c.zero();
    let mut pw = c.one();
    for coef in a {
        acc = c.add(&acc, &c.mul(coef, &pw));
        pw = c.mul(&pw, x);
    }
    acc
}
pub fn padd(c: &Ctx, a: &[Elt], b: &[Elt]) -> Poly {
    let n = a.len().max(b.len());
    (0..n)
        .map(|i| {
            let x = a.get(i).cloned().unwrap_or_else(|| c.zero());
            let y = b.get(i).cloned().unwrap_or_else(|| c.zero());
            c.add(&x, &y)
        })
        .collect()
}
pub fn psub(c: &Ctx, a: &[Elt], b: &[Elt]) -> Poly {
    let n = a.len().max(b.len());
    (0..n)
        .map(|i| {
            let x = a.get(i).cloned().unwrap_or_else(|| c.zero());
            let y = b.get(i).cloned().unwrap_or_else(|| c.zero());
            c.sub(&x, &y)
        })
        .collect()
}
pub fn pmul(c: &Ctx, a: &[Elt], b: &[Elt]) -> Poly {
    if a.is_empty() || b.is_empty() {
        return vec![];
    }
    let mut out = vec![c.zero(); a.len() + b.len() - 1];
    for (i, x) in a.iter().enumerate() {
        for (j, y) in b.iter().enumerate() {
            out[i + j] = c.add(&out[i + j], &c.mul(x, y));
        }
    }
    out
}
pub fn pscale(c: &Ctx, a: &[Elt], k: &Elt) -> Poly {
    a.iter().map(|x| c.mul(x, k)).collect()
}
/// Euclidean division: (quotient, remainder), both trimmed; divisor must be non-zero
pub fn pdivrem(c: &Ctx, a: &[Elt], b: &[Elt]) -> (Poly, Poly) {
    let b = ptrim(c, b.to_vec());
    let mut r = ptrim(c, a.to_vec());
    assert!(!(b.len() == 1 && c.is_zero(&b[0])), "division by the zero polynomial");
    if r.len() < b.len() {
        return (vec![c.zero()], r);
    }
    let mut q = vec![c.zero(); r.len() - b.len() + 1];
    let lead_inv = c.inv(b.last().unwrap());
    loop {
        if r.len() < b.len() || (r.len() == 1 && c.is_zero(&r[0])) {
            break;
        }
        let shift = r.len() - b.len();
        let coef = c.mul(r.last().unwrap(), &lead_inv);
        for (i, y) in b.iter().enumerate() {
            r[shift + i] = c.sub(&r[shift + i], &c.mul(&coef, y));
        }
        q[shift] = coef;
        r.pop();
        if r.is_empty() {
            r.push(c.zero());
        }
        r = ptrim(c, r);
    }
    (ptrim(c, q), ptrim(c, r))
}
/// Lagrange interpolation from the definition; xs must be pairwise distinct
pub fn pinterpolate(c: &Ctx, xs: &[Elt], ys: &[Elt]) -> Poly {
    let n = xs.len();
    let mut acc: Poly = vec![c.zero(); n.max(1)];
    for i in 0..n {
        // numerator polynomial prod_{j != i} (x - x_j), denominator prod (x_i - x_j)
        let mut num: Poly = vec![c.one()];
        let mut den = c.one();
        for j in 0..n {
            if j == i {
                continue;
            }
            num = pmul(c, &num, &[c.neg(&xs[j]), c.one()]);
            den = c.mul(&den, &c.sub(&xs[i], &xs[j]));
        }
        let k = c.mul(&ys[i], &c.inv(&den));
        let term = pscale(c, &num, &k);
        acc = padd(c, &acc, &term);
    }
    acc
}
pub fn pfrom_roots(c: &Ctx, roots: &[Elt]) -> Poly {
    let mut out: Poly = vec![c.one()];
    for r in roots {
        out = pmul(c, &out, &[c.neg(r), c.one()]);
    }
    out
}
/// polynomial equality modulo trailing (high-degree) zeros
pub fn peq(c: &Ctx, a: &[Elt], b: &[Elt]) -> bool {
    ptrim(c, a.to_vec()) == ptrim(c, b.to_vec())
}
