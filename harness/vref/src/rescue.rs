//! Independent reference implementation of the Rescue-Prime instantiations used by winterfell:
//! u128 modular arithmetic, exponent S-boxes (alpha and alpha^-1 mod p-1 computed here),
//! explicit matrix-vector MDS multiplication, sponge / Jive rules as documented in the rustdoc.

use crate::field::*;
use crate::rescue_consts::*;

pub struct Params {
    pub name: &'static str,
    pub p: u128,
    pub width: usize,
    pub rate_start: usize,
    pub rate_width: usize,
    /// index of the capacity element that receives the length / domain flag
    pub cap_idx: usize,
    pub digest_start: usize,
    pub alpha: u128,
    pub inv_alpha: u128,
    pub mds: Vec<Vec<u128>>,
    pub ark1: Vec<Vec<u128>>,
    pub ark2: Vec<Vec<u128>>,
    pub rounds: usize,
    pub jive: bool,
}

fn conv<const W: usize, const R: usize>(t: &[[u64; W]; R]) -> Vec<Vec<u128>> {
    t.iter().map(|r| r.iter().map(|x| *x as u128).collect()).collect()
}

/// inverse of alpha modulo p-1 by extended Euclid on i128
fn inv_exponent(alpha: u128, p: u128) -> u128 {
    let m = (p - 1) as i128;
    let (mut r0, mut r1) = (m, alpha as i128);
    let (mut t0, mut t1) = (0i128, 1i128);
    while r1 != 0 {
        let q = r0 / r1;
        (r0, r1) = (r1, r0 - q * r1);
        (t0, t1) = (t1, t0 - q * t1);
    }
    assert_eq!(r0, 1);
    (((t0 % m) + m) % m) as u128
}

pub fn rp64_256() -> Params {
    Params {
        name: "Rp64_256",
        p: P64,
        width: 12,
        rate_start: 4,
        rate_width: 8,
        cap_idx: 0,
        digest_start: 4,
        alpha: 7,
        inv_alpha: inv_exponent(7, P64),
        mds: conv(&RP64_MDS),
        ark1: conv(&RP64_ARK1),
        ark2: conv(&RP64_ARK2),
        rounds: 7,
        jive: false,
    }
}
pub fn rp_jive64_256() -> Params {
    Params {
        name: "RpJive64_256",
        p: P64,
        width: 8,
        rate_start: 4,
        rate_width: 4,
        cap_idx: 0,
        digest_start: 4,
        alpha: 7,
        inv_alpha: inv_exponent(7, P64),
        mds: conv(&JIVE_MDS),
        ark1: conv(&JIVE_ARK1),
        ark2: conv(&JIVE_ARK2),
        rounds: 7,
        jive: true,
    }
}
pub fn rp62_248() -> Params {
    Params {
        name: "Rp62_248",
        p: P62,
        width: 12,
        rate_start: 0,
        rate_width: 8,
        cap_idx: 11,
        digest_start: 0,
        alpha: 3,
        inv_alpha: inv_exponent(3, P62),
        mds: conv(&RP62_MDS),
        ark1: conv(&RP62_ARK1),
        ark2: conv(&RP62_ARK2),
        rounds: 7,
        jive: false,
    }
}

impl Params {
    pub fn mds_mul(&self, s: &[u128]) -> Vec<u128> {
        (0..self.width)
            .map(|i| {
                let mut acc = 0u128;
                for j in 0..self.width {
                    acc = addmod(acc, mulmod(self.mds[i][j], s[j], self.p), self.p);
                }
                acc
            })
            .collect()
    }
    pub fn round(&self, s: &mut Vec<u128>, r: usize) {
        let p = self.p;
        for x in s.iter_mut() {
            *x = powmod(*x, self.alpha, p);
        }
        *s = self.mds_mul(s);
        for (x, k) in s.iter_mut().zip(&self.ark1[r]) {
            *x = addmod(*x, *k % p, p);
        }
        for x in s.iter_mut() {
            *x = powmod(*x, self.inv_alpha, p);
        }
        *s = self.mds_mul(s);
        for (x, k) in s.iter_mut().zip(&self.ark2[r]) {
            *x = addmod(*x, *k % p, p);
        }
    }
    pub fn permute(&self, s: &mut Vec<u128>) {
        for r in 0..self.rounds {
            self.round(s, r);
        }
    }
    fn digest(&self, s: &[u128]) -> Vec<u128> {
        s[self.digest_start..self.digest_start + 4].to_vec()
    }

    /// sponge over a list of base-field elements (hash_elements / merge_many)
    pub fn hash_elements(&self, elems: &[u128]) -> Vec<u128> {
        let p = self.p;
        let mut s = vec![0u128; self.width];
        if self.jive {
            // Hirose-style: capacity flag 1 iff the input is not a multiple of the rate
            if elems.len() % self.rate_width != 0 {
                s[self.cap_idx] = 1;
            }
        } else {
            s[self.cap_idx] = elems.len() as u128 % p;
        }
        let mut i = 0;
        for e in elems {
            s[self.rate_start + i] = addmod(s[self.rate_start + i], *e % p, p);
            i += 1;
            if i == self.rate_width {
                self.permute(&mut s);
                i = 0;
            }
        }
        if i > 0 {
            if self.jive {
                // padding 1, 0, 0, ... written over the rest of the rate
                s[self.rate_start + i] = 1;
                for k in i + 1..self.rate_width {
                    s[self.rate_start + k] = 0;
                }
            }
            self.permute(&mut s);
        }
        self.digest(&s)
    }

    /// bytes -> 7-byte chunks, the last chunk followed by a single 1 byte
    pub fn bytes_to_elements(bytes: &[u8]) -> Vec<u128> {
        let chunks: Vec<&[u8]> = bytes.chunks(7).collect();
        let n = chunks.len();
        chunks
            .iter()
            .enumerate()
            .map(|(k, c)| {
                let mut buf = [0u8; 8];
                buf[..c.len()].copy_from_slice(c);
                if k == n - 1 {
                    buf[c.len()] = 1;
                }
                u64::from_le_bytes(buf) as u128
            })
            .collect()
    }
    pub fn hash(&self, bytes: &[u8]) -> Vec<u128> {
        self.hash_elements(&Self::bytes_to_elements(bytes))
    }

    pub fn merge(&self, a: &[u128], b: &[u128]) -> Vec<u128> {
        if self.jive {
            let init: Vec<u128> = a.iter().chain(b.iter()).copied().collect();
            self.jive_compress(init)
        } else {
            let mut s = vec![0u128; self.width];
            for i in 0..4 {
                s[self.rate_start + i] = a[i];
                s[self.rate_start + 4 + i] = b[i];
            }
            s[self.cap_idx] = 8;
            self.permute(&mut s);
            self.digest(&s)
        }
    }
    fn jive_compress(&self, init: Vec<u128>) -> Vec<u128> {
        let mut s = init.clone();
        self.permute(&mut s);
        (0..4).map(|i| addmod(addmod(init[i], init[4 + i], self.p), addmod(s[i], s[4 + i], self.p), self.p)).collect()
    }
    pub fn merge_with_int(&self, seed: &[u128], value: u64) -> Vec<u128> {
        let p = self.p;
        let v = value as u128;
        let (lo, hi, count) = if v < p { (v, 0, 5u128) } else { (v % p, v / p, 6u128) };
        if self.jive {
            let mut init = vec![0u128; 8];
            init[..4].copy_from_slice(seed);
            init[4] = lo;
            init[5] = hi;
            init[7] = count;
            self.jive_compress(init)
        } else {
            let mut s = vec![0u128; self.width];
            for i in 0..4 {
                s[self.rate_start + i] = seed[i];
            }
            s[self.rate_start + 4] = lo;
            s[self.rate_start + 5] = hi;
            s[self.cap_idx] = count;
            self.permute(&mut s);
            self.digest(&s)
        }
    }
}

#[cfg(test)]
mod tests {
    use super::*;
    #[test]
    fn sbox_inverse() {
        for p in [rp64_256(), rp62_248()] {
            let x = 123456789u128;
            assert_eq!(powmod(powmod(x, p.alpha, p.p), p.inv_alpha, p.p), x);
        }
        assert_eq!(rp64_256().inv_alpha, 10540996611094048183);
        assert_eq!(rp62_248().inv_alpha, 3074416663688030891);
    }
}
