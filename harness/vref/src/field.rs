//! Integer arithmetic modulo p on u128 (with a BigUint path for moduli above 2^64) and extension
//! fields as polynomials modulo a monic irreducible polynomial, with schoolbook multiplication and
//! inversion by the extended Euclidean algorithm on polynomials.

use num_bigint::BigUint;

pub const P62: u128 = 4611624995532046337; // 2^62 - 111 * 2^39 + 1
pub const P64: u128 = 0xffff_ffff_0000_0001; // 2^64 - 2^32 + 1
pub const P128: u128 = 340282366920938463463374557953744961537; // 2^128 - 45 * 2^40 + 1

#[inline]
pub fn addmod(a: u128, b: u128, p: u128) -> u128 {
    debug_assert!(a < p && b < p);
    let (s, o) = a.overflowing_add(b);
    if o || s >= p {
        s.wrapping_sub(p)
    } else {
        s
    }
}
#[inline]
pub fn submod(a: u128, b: u128, p: u128) -> u128 {
    if a >= b {
        a - b
    } else {
        p - (b - a)
    }
}
#[inline]
pub fn negmod(a: u128, p: u128) -> u128 {
    if a == 0 {
        0
    } else {
        p - a
    }
}
pub fn mulmod(a: u128, b: u128, p: u128) -> u128 {
    if p <= u64::MAX as u128 + 1 {
        (a % p) * (b % p) % p
    } else {
        mulmod_big(a, b, p)
    }
}
pub fn mulmod_big(a: u128, b: u128, p: u128) -> u128 {
    let r = (BigUint::from(a) * BigUint::from(b)) % BigUint::from(p);
    let d = r.to_u64_digits();
    let lo = d.first().copied().unwrap_or(0) as u128;
    let hi = d.get(1).copied().unwrap_or(0) as u128;
    (hi << 64) | lo
}
/// second implementation (double-and-add) used to cross-check `mulmod` at start-up
pub fn mulmod_slow(mut a: u128, mut b: u128, p: u128) -> u128 {
    a %= p;
    b %= p;
    let mut r = 0u128;
    while b > 0 {
        if b & 1 == 1 {
            r = addmod(r, a, p);
        }
        a = addmod(a, a, p);
        b >>= 1;
    }
    r
}
pub fn powmod(mut b: u128, mut e: u128, p: u128) -> u128 {
    let mut r = 1u128 % p;
    b %= p;
    while e > 0 {
        if e & 1 == 1 {
            r = mulmod(r, b, p);
        }
        b = mulmod(b, b, p);
        e >>= 1;
    }
    r
}
/// modular inverse through extended Euclid on signed big integers (0 maps to 0)
pub fn invmod(a: u128, p: u128) -> u128 {
    if a % p == 0 {
        return 0;
    }
    // extended Euclid with values kept modulo p
    let (mut r0, mut r1) = (p, a % p);
    let (mut t0, mut t1) = (0u128, 1u128);
    while r1 != 0 {
        let q = r0 / r1;
        let r2 = r0 - q * r1;
        let t2 = submod(t0, mulmod(q % p, t1, p), p);
        r0 = r1;
        r1 = r2;
        t0 = t1;
        t1 = t2;
    }
    debug_assert!(r0 == 1);
    t0
}

/// Miller-Rabin with the given number of fixed small-prime bases
pub fn is_probable_prime(n: u128) -> bool {
    if n < 2 {
        return false;
    }
    const BASES: [u128; 40] = [
        2, 3, 5, 7, 11, 13, 17, 19, 23, 29, 31, 37, 41, 43, 47, 53, 59, 61, 67, 71, 73, 79, 83, 89, 97, 101, 103, 107, 109, 113,
        127, 131, 137, 139, 149, 151, 157, 163, 167, 173,
    ];
    for b in BASES {
        if n == b {
            return true;
        }
        if n % b == 0 {
            return false;
        }
    }
    let mut d = n - 1;
    let mut s = 0;
    while d % 2 == 0 {
        d /= 2;
        s += 1;
    }
    'outer: for a in BASES {
        let mut x = powmod(a, d, n);
        if x == 1 || x == n - 1 {
            continue;
        }
        for _ in 0..s - 1 {
            x = mulmod(x, x, n);
            if x == n - 1 {
                continue 'outer;
            }
        }
        return false;
    }
    true
}

// EXTENSION FIELDS
// ================================================================================================

/// Fp[x] / (x^d + m[d-1] x^(d-1) + ... + m[0]); d = 1 is the base field (m = [0], unused).
#[derive(Clone, Debug)]
pub struct Ctx {
    pub p: u128,
    /// low coefficients of the monic modulus polynomial (length d)
    pub m: Vec<u128>,
}

pub type Elt = Vec<u128>;

impl Ctx {
    pub fn base(p: u128) -> Ctx {
        Ctx { p, m: vec![0] }
    }
    /// `coeffs` are signed low coefficients of the monic polynomial, e.g. x^2 - x + 2 -> [2, -1]
    pub fn ext(p: u128, coeffs: &[i64]) -> Ctx {
        Ctx { p, m: coeffs.iter().map(|c| if *c >= 0 { *c as u128 % p } else { p - ((-*c) as u128 % p) }).collect() }
    }
    pub fn d(&self) -> usize {
        self.m.len()
    }
    pub fn zero(&self) -> Elt {
        vec![0; self.d()]
    }
    pub fn one(&self) -> Elt {
        let mut v = self.zero();
        v[0] = 1 % self.p;
        v
    }
    pub fn from_base(&self, b: u128) -> Elt {
        let mut v = self.zero();
        v[0] = b % self.p;
        v
    }
    pub fn is_zero(&self, a: &Elt) -> bool {
        a.iter().all(|c| *c == 0)
    }
    pub fn add(&self, a: &Elt, b: &Elt) -> Elt {
        a.iter().zip(b).map(|(x, y)| addmod(*x, *y, self.p)).collect()
    }
    pub fn sub(&self, a: &Elt, b: &Elt) -> Elt {
        a.iter().zip(b).map(|(x, y)| submod(*x, *y, self.p)).collect()
    }
    pub fn neg(&self, a: &Elt) -> Elt {
        a.iter().map(|x| negmod(*x, self.p)).collect()
    }
    pub fn mul_base(&self, a: &Elt, b: u128) -> Elt {
        a.iter().map(|x| mulmod(*x, b, self.p)).collect()
    }
    pub fn mul(&self, a: &Elt, b: &Elt) -> Elt {
        let d = self.d();
        if d == 1 {
            return vec![mulmod(a[0], b[0], self.p)];
        }
        let mut prod = vec![0u128; 2 * d - 1];
        for i in 0..d {
            for j in 0..d {
                prod[i + j] = addmod(prod[i + j], mulmod(a[i], b[j], self.p), self.p);
            }
        }
        // reduce: x^k = -(m[0] + ... + m[d-1] x^(d-1)) * x^(k-d)
        for k in (d..2 * d - 1).rev() {
            let c = prod[k];
            prod[k] = 0;
            for i in 0..d {
                let t = mulmod(c, self.m[i], self.p);
                prod[k - d + i] = submod(prod[k - d + i], t, self.p);
            }
        }
        prod.truncate(d);
        prod
    }
    pub fn pow(&self, a: &Elt, mut e: u128) -> Elt {
        let mut r = self.one();
        let mut b = a.clone();
        while e > 0 {
            if e & 1 == 1 {
                r = self.mul(&r, &b);
            }
            b = self.mul(&b, &b);
            e >>= 1;
        }
        r
    }
    /// p-th power map
    pub fn frobenius(&self, a: &Elt) -> Elt {
        self.pow(a, self.p)
    }
    /// inverse by the extended Euclidean algorithm on polynomials over Fp (0 maps to 0)
    pub fn inv(&self, a: &Elt) -> Elt {
        let d = self.d();
        if self.is_zero(a) {
            return self.zero();
        }
        if d == 1 {
            return vec![invmod(a[0], self.p)];
        }
        let p = self.p;
        // modulus polynomial, full coefficients
        let mut modulus: Vec<u128> = self.m.clone();
        modulus.push(1);
        // invariants: s0 * a = r0 (mod modulus), s1 * a = r1 (mod modulus)
        let mut r0 = modulus;
        let mut r1 = crate::poly::trim(a.clone());
        let mut s0: Vec<u128> = vec![0];
        let mut s1: Vec<u128> = vec![1];
        while !(r1.len() == 1 && r1[0] == 0) {
            let (q, r) = crate::poly::divrem_p(&r0, &r1, p);
            let qs1 = crate::poly::mul_p(&q, &s1, p);
            let s2 = crate::poly::sub_p(&s0, &qs1, p);
            r0 = r1;
            r1 = r;
            s0 = s1;
            s1 = s2;
        }
        // r0 is a non-zero constant (modulus irreducible); a^-1 = s0 / r0
        assert!(r0.len() == 1 && r0[0] != 0, "modulus polynomial is not irreducible?");
        let c = invmod(r0[0], p);
        let mut out: Vec<u128> = s0.iter().map(|x| mulmod(*x, c, p)).collect();
        // s0 has degree < d
        let out_t = crate::poly::trim(out.clone());
        assert!(out_t.len() <= d);
        out.resize(d, 0);
        out.truncate(d);
        out
    }
    pub fn div(&self, a: &Elt, b: &Elt) -> Elt {
        self.mul(a, &self.inv(b))
    }
}

pub fn startup_selfcheck() {
    // the two multiplication paths agree on each modulus
    let samples: [u128; 7] = [0, 1, 2, u64::MAX as u128, (1 << 64) + 5, u128::MAX / 3, 0xdead_beef_1234_5678_9abc_def0];
    for p in [P62, P64, P128] {
        for a in samples {
            for b in samples {
                let x = mulmod(a % p, b % p, p);
                let y = mulmod_slow(a % p, b % p, p);
                assert_eq!(x, y, "reference mulmod paths disagree");
                let z = mulmod_big(a % p, b % p, p);
                assert_eq!(x, z, "reference mulmod paths disagree");
            }
        }
        for a in samples {
            let a = a % p;
            if a != 0 {
                assert_eq!(mulmod(a, invmod(a, p), p), 1);
                assert_eq!(invmod(a, p), powmod(a, p - 2, p));
            }
        }
    }
}

#[cfg(test)]
mod tests {
    use super::*;
    #[test]
    fn selfcheck() {
        startup_selfcheck();
        assert!(is_probable_prime(P62) && is_probable_prime(P64) && is_probable_prime(P128));
        let c = Ctx::ext(P64, &[2, -1]);
        let a = vec![5, 7];
        let i = c.inv(&a);
        assert_eq!(c.mul(&a, &i), c.one());
        let c3 = Ctx::ext(P64, &[-1, -1, 0]);
        let a = vec![5, 7, 11];
        let i = c3.inv(&a);
        assert_eq!(c3.mul(&a, &i), c3.one());
    }
}
