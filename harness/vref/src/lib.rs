//! vref — reference models written from the definitions (DESIGN.md 3.5). Deliberately slow and
//! obvious; never calls the code under test.

pub mod field;
pub mod poly;
pub mod rescue;
pub mod rescue_consts;

pub use field::*;
