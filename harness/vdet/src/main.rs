//! vdet — "deterministic output" differential (DESIGN.md 3.6): the same binary is built with the
//! serial, concurrent and async feature sets; `--emit` regenerates the same case list (same
//! proptest strategy, same ChaCha seed) and prints one line of BLAKE3 digests per case; the
//! driver (serial build) runs the other builds under several RAYON_NUM_THREADS values and diffs.

use std::collections::BTreeMap;
use std::process::Command;
use std::sync::Arc;

use vcore::*;
use vfield::{Mix, Spec as FSpec};
use vgen::gen::{gen_instance, GenCfg, Instance};
use vgen::options::gen_options;
use vgen::{GenAir, GenProver, GenTrace, PubInputs};
use vhash::*;
use winter_air::PartitionOptions;
use winter_crypto::{DefaultRandomCoin, Hasher, MerkleTree};
use winter_math::{fft, FieldElement, StarkField};
use winter_prover::matrix::{ColMatrix, RowMatrix};
use winter_prover::{Prover, StarkDomain, TraceTable};
use winter_utils::Serializable;
use winter_verifier::{verify, AcceptableOptions};

const VARIANT: &str = if cfg!(feature = "concurrent") {
    "concurrent"
} else if cfg!(feature = "async") {
    "async"
} else {
    "serial"
};

fn dg(bytes: &[u8]) -> String {
    blake3::hash(bytes).to_hex()[..16].to_string()
}
fn dg_elems<E: FieldElement>(v: &[E]) -> String {
    let mut b = Vec::with_capacity(v.len() * E::ELEMENT_BYTES);
    for e in v {
        e.write_into(&mut b);
    }
    dg(&b)
}

#[cfg(feature = "async")]
fn block_on<F: std::future::Future>(f: F) -> F::Output {
    let mut f = std::pin::pin!(f);
    let waker = std::task::Waker::noop();
    let mut cx = std::task::Context::from_waker(waker);
    loop {
        if let std::task::Poll::Ready(v) = f.as_mut().poll(&mut cx) {
            return v;
        }
    }
}

fn run_prove<X: HS>(prover: &GenProver<X>, trace: GenTrace<X::S>) -> Result<winter_air::proof::Proof, String>
where
    X::H: Send + Sync,
{
    #[cfg(feature = "async")]
    let r = block_on(prover.prove(trace));
    #[cfg(not(feature = "async"))]
    let r = prover.prove(trace);
    r.map_err(|e| format!("{e}"))
}

// FAMILIES
// ================================================================================================

fn family_proof(s: &mut Src, tier: Tier) -> (String, Vec<(String, String)>) {
    let idx = s.pick_copy(&[0u64, 1, 2, 4, 8, 9, 11]);
    with_hasher!(idx, X, proof_case::<X>(s, tier))
}

fn proof_case<X: HS>(s: &mut Src, tier: Tier) -> (String, Vec<(String, String)>)
where
    X::H: Send + Sync,
{
    let mut rec = Rec::default();
    let mut cfg = GenCfg::small();
    // LDE sizes around the thresholds: 1024 (FFT / Merkle / segments), 8192 (constraint evaluation fragments)
    cfg.min_log_n = 5;
    cfg.max_log_n = if X::is_rescue() { 8 } else if tier == Tier::Thorough { 12 } else { 11 };
    cfg.max_width = 10;
    // wide and short traces: many row-matrix segments over few rows (batching by rows vs by elements)
    let wide_short = !X::is_rescue() && s.chance(1, 6);
    if wide_short {
        cfg.min_log_n = 3;
        cfg.max_log_n = 5;
        cfg.min_width = 57;
        cfg.max_width = 130;
        cfg.allow_aux = false;
        cfg.max_degree = 2;
    }
    // long periodic cycles over a constraint-evaluation domain that is split into fragments (>= 8192)
    let long_periodic = !wide_short && !X::is_rescue() && s.chance(1, 5);
    if long_periodic {
        cfg.min_log_n = 11;
        cfg.max_log_n = 12;
        cfg.max_width = 3;
        cfg.max_degree = 4;
        cfg.allow_aux = false;
        cfg.force_periodic = true;
    }
    let Instance { spec, main, .. } = gen_instance::<X::S>(s, &cfg, &mut rec);
    let max_lde = if wide_short { 1 << 7 } else if X::is_rescue() { 1 << 11 } else { 1 << 15 };
    let mut opt = gen_options(s, spec.trace_len, spec.min_blowup(), max_lde, <X::S as FSpec>::CUBE.is_some(), &mut rec);
    opt.grinding = if s.bool() { 0 } else { 8 };
    if wide_short {
        // 128 LDE rows: more row-matrix segments than a large thread pool leaves rows per batch
        opt.blowup = (128 / spec.trace_len).max(spec.min_blowup());
        if vgen::options::fri_truncates(spec.trace_len, opt.blowup, opt.folding, opt.rem_degree) {
            opt.folding = 2;
            opt.rem_degree = 0;
        }
        opt.queries = opt.queries.min(spec.trace_len * opt.blowup - 1);
    }
    let options = opt.build();
    let spec = Arc::new(spec);
    let lde = spec.trace_len * opt.blowup;
    let desc = format!("{} n={} w={} aux={} lde={} ext={} part=({},{}) grind={}", X::NAME, spec.trace_len, spec.main_width, spec.aux.len(), lde, opt.ext, opt.partitions, opt.hash_rate, opt.grinding);
    let prover = GenProver::<X>::new(spec.clone(), options.clone());
    let trace = GenTrace::<X::S>::new(&spec, main);
    let mut out = vec![];
    match catch(|| run_prove::<X>(&prover, trace)) {
        Ok(Ok(proof)) => {
            out.push(("context".into(), dg(&proof.context.to_bytes())));
            out.push(("commitments".into(), dg(&proof.commitments.to_bytes())));
            out.push(("ood".into(), dg(&proof.ood_frame.to_bytes())));
            out.push(("nonce".into(), format!("{}", proof.pow_nonce)));
            out.push(("proof".into(), dg(&proof.to_bytes())));
            let ok = verify::<GenAir<X::S>, X::H, DefaultRandomCoin<X::H>, MerkleTree<X::H>>(proof, PubInputs::new(spec.clone()), &AcceptableOptions::OptionSet(vec![options])).is_ok();
            out.push(("verifies".into(), format!("{ok}")));
        },
        Ok(Err(e)) => out.push(("prover_error".into(), dg(e.as_bytes()))),
        Err(pn) => out.push(("prover_panic".into(), pn.key().chars().take(60).collect())),
    }
    out.push(("lde".into(), format!("{lde}")));
    (desc, out)
}

fn family_fft(s: &mut Src, tier: Tier) -> (String, Vec<(String, String)>) {
    type B = <vfield::F64 as FSpec>::B;
    type Q = vfield::Q<B>;
    let max = if tier == Tier::Thorough { 16 } else { 14 };
    let log_n = s.pick_copy(&[4u32, 6, 7, 8, 9, 10, 10, 11, 12, max]);
    let n = 1usize << log_n;
    let blowup = 1usize << s.range(0, 3);
    let mut mix = Mix(s.u64());
    let base: Vec<B> = (0..n).map(|_| mix.elem::<vfield::F64, B>().0).collect();
    let ext: Vec<Q> = (0..n).map(|_| mix.elem::<vfield::F64, Q>().0).collect();
    let tw = fft::get_twiddles::<B>(n);
    let itw = fft::get_inv_twiddles::<B>(n);
    let mut out = vec![("twiddles".to_string(), dg_elems(&tw)), ("inv_twiddles".to_string(), dg_elems(&itw))];
    let mut a = base.clone();
    fft::evaluate_poly(&mut a, &tw);
    out.push(("evaluate_poly".into(), dg_elems(&a)));
    let mut b = ext.clone();
    fft::evaluate_poly(&mut b, &tw);
    out.push(("evaluate_poly_ext".into(), dg_elems(&b)));
    out.push(("evaluate_with_offset".into(), dg_elems(&fft::evaluate_poly_with_offset(&ext, &tw, B::GENERATOR, blowup))));
    fft::interpolate_poly(&mut a, &itw);
    out.push(("interpolate_poly".into(), dg_elems(&a)));
    out.push(("interpolate_is_inverse".into(), format!("{}", a == base)));
    fft::interpolate_poly_with_offset(&mut b, &itw, B::GENERATOR);
    out.push(("interpolate_with_offset".into(), dg_elems(&b)));
    (format!("f64 n={n} blowup={blowup}"), out)
}

fn family_batch(s: &mut Src, _tier: Tier) -> (String, Vec<(String, String)>) {
    type B = <vfield::F128 as FSpec>::B;
    let threads = 16usize;
    let n = match s.below(6) {
        0 => s.pick_copy(&[1023usize, 1024, 1025, 2047, 2048, 2049]),
        1 => threads * 1024 + s.below(3) as usize - 1,
        2 => 8 * 1024 + s.below(3) as usize - 1,
        3 => s.below(40_000) as usize,
        _ => s.below(5000) as usize,
    };
    let mut mix = Mix(s.u64());
    let k = s.range(2, 9) as usize;
    let vals: Vec<B> = (0..n).map(|i| if i % k == 0 { B::ZERO } else { mix.elem::<vfield::F128, B>().0 }).collect();
    let other: Vec<B> = (0..n).map(|_| mix.elem::<vfield::F128, B>().0).collect();
    let b = mix.elem::<vfield::F128, B>().0;
    let mut out = vec![];
    out.push(("batch_inversion".to_string(), dg_elems(&winter_math::batch_inversion(&vals))));
    out.push(("power_series".into(), dg_elems(&winter_math::get_power_series(b, n))));
    out.push(("power_series_offset".into(), dg_elems(&winter_math::get_power_series_with_offset(b, other.first().copied().unwrap_or(B::ONE), n))));
    let mut a = vals.clone();
    winter_math::add_in_place(&mut a, &other);
    out.push(("add_in_place".into(), dg_elems(&a)));
    winter_math::mul_acc(&mut a, &other, b);
    out.push(("mul_acc".into(), dg_elems(&a)));
    let tagged: Vec<u32> = (0..(n / 4 * 4) as u32).collect();
    let t = winter_utils::transpose_slice::<u32, 4>(&tagged);
    out.push(("transpose".into(), dg(&t.iter().flat_map(|r| r.iter().flat_map(|x| x.to_le_bytes())).collect::<Vec<u8>>())));
    (format!("f128 len={n}"), out)
}

fn family_merkle(s: &mut Src, tier: Tier) -> (String, Vec<(String, String)>) {
    let idx = s.pick_copy(&[1u64, 5, 7, 9]);
    with_hasher!(idx, X, {
        let max = if X::is_rescue() { 11 } else if tier == Tier::Thorough { 14 } else { 13 };
        let log_n = s.pick_copy(&[9u32, 10, 10, 11, 11, 12, max]).min(max);
        let n = 1usize << log_n;
        let seed = s.u64();
        let leaves: Vec<<<X as HS>::H as Hasher>::Digest> = (0..n).map(|i| <<X as HS>::H as Hasher>::hash(&[seed.to_le_bytes(), (i as u64).to_le_bytes()].concat())).collect();
        let tree = MerkleTree::<<X as HS>::H>::new(leaves).unwrap();
        let mut out = vec![("root".to_string(), dg(&tree.root().to_bytes()))];
        let mut all = vec![];
        for i in [0usize, 1, n / 2, n - 1, (seed as usize) % n] {
            let (l, p) = tree.prove(i).unwrap();
            all.extend(l.to_bytes());
            for d in p {
                all.extend(d.to_bytes());
            }
        }
        out.push(("openings".into(), dg(&all)));
        (format!("{} leaves={n}", X::NAME), out)
    })
}

fn family_matrix(s: &mut Src, _tier: Tier) -> (String, Vec<(String, String)>) {
    type B = <vfield::F64 as FSpec>::B;
    type H = winter_crypto::hashers::Blake3_256<B>;
    let cols = s.pick_copy(&[1usize, 3, 8, 9, 17, 40, 120]);
    let log_n = if cols > 40 { 4 } else { s.pick_copy(&[6u32, 8, 9, 10, 11]) };
    let n = 1usize << log_n;
    let blowup = 1usize << s.range(1, 3);
    let mut mix = Mix(s.u64());
    let polys: Vec<Vec<B>> = (0..cols).map(|_| (0..n).map(|_| mix.elem::<vfield::F64, B>().0).collect()).collect();
    let pm = ColMatrix::new(polys);
    let domain = StarkDomain::from_twiddles(fft::get_twiddles::<B>(n), blowup, B::GENERATOR);
    let rm = RowMatrix::<B>::evaluate_polys_over::<8>(&pm, &domain);
    let mut out = vec![("lde_rows".to_string(), dg_elems(rm.data()))];
    let (p, r) = (s.range(1, 8) as usize, s.pick_copy(&[1usize, 4, 8]));
    let c: MerkleTree<H> = rm.commit_to_rows::<H, MerkleTree<H>>(PartitionOptions::new(p, r));
    out.push(("row_commitment".into(), dg(&c.root().to_bytes())));
    let cm = pm.evaluate_columns_over(&domain);
    let cc: MerkleTree<H> = cm.commit_to_rows::<H, MerkleTree<H>>();
    out.push(("col_commitment".into(), dg(&cc.root().to_bytes())));
    let interp = cm.interpolate_columns();
    out.push(("interpolated".into(), dg_elems(interp.get_column(0))));
    (format!("f64 cols={cols} n={n} blowup={blowup} partitions=({p},{r})"), out)
}

fn family_tables(s: &mut Src, _tier: Tier) -> (String, Vec<(String, String)>) {
    type B = <vfield::F64 as FSpec>::B;
    let width = s.range(1, 9) as usize;
    let log_n = s.range(3, 12) as u32;
    let n = 1usize << log_n;
    let seed = s.u64();
    let cell = move |c: usize, r: usize| -> B { B::new((seed ^ ((c as u64) << 40) ^ r as u64).wrapping_mul(0x9e3779b97f4a7c15) >> 1) };
    let row = move |r: usize| -> Vec<B> { (0..width).map(|c| cell(c, r)).collect() };
    let mut seq = TraceTable::<B>::new(width, n);
    seq.fill(|st| st.copy_from_slice(&row(0)), |i, st| st.copy_from_slice(&row(i + 1)));
    let mut out = vec![("fill".to_string(), dg_elems(&(0..width).flat_map(|c| seq.get_column(c).to_vec()).collect::<Vec<_>>()))];
    let mut fl = 2usize;
    while fl <= n {
        let mut t = TraceTable::<B>::new(width, n);
        let ok = catch(|| {
            #[cfg(feature = "concurrent")]
            {
                use winter_utils::iterators::*;
                t.fragments(fl).for_each(|mut frag| {
                    let off = frag.offset();
                    frag.fill(|st| st.copy_from_slice(&row(off)), |i, st| st.copy_from_slice(&row(off + i + 1)));
                });
            }
            #[cfg(not(feature = "concurrent"))]
            t.fragments(fl).for_each(|mut frag| {
                let off = frag.offset();
                frag.fill(|st| st.copy_from_slice(&row(off)), |i, st| st.copy_from_slice(&row(off + i + 1)));
            });
        })
        .is_ok();
        let d = if ok { dg_elems(&(0..width).flat_map(|c| t.get_column(c).to_vec()).collect::<Vec<_>>()) } else { "rejected".into() };
        out.push((format!("fragments_{fl}"), d));
        fl *= 4;
    }
    (format!("table {width}x{n}"), out)
}

type Family = fn(&mut Src, Tier) -> (String, Vec<(String, String)>);
const FAMILIES: &[(&str, Family, usize, usize)] = &[
    // name, function, quick cases, thorough cases
    ("proof", family_proof, 24, 200),
    ("fft", family_fft, 12, 60),
    ("batch", family_batch, 16, 80),
    ("merkle", family_merkle, 10, 50),
    ("matrix", family_matrix, 12, 60),
    ("tables", family_tables, 10, 50),
];

/// families selected by VDET_FAMILIES (comma separated; empty = all) and the case-count multiplier
fn selection() -> (Vec<String>, usize) {
    let fams: Vec<String> = std::env::var("VDET_FAMILIES").unwrap_or_default().split(',').filter(|s| !s.is_empty()).map(|s| s.to_string()).collect();
    let mult = std::env::var("VDET_MULT").ok().and_then(|s| s.parse().ok()).unwrap_or(1);
    (fams, mult)
}

fn emit(seed: u64, tier: Tier, only: Option<(String, usize)>) {
    let (fams, mult) = selection();
    for (name, f, q, t) in FAMILIES {
        if !fams.is_empty() && !fams.iter().any(|x| x == name) {
            continue;
        }
        let count = (if tier == Tier::Quick { *q } else { *t }) * mult;
        let vectors = gen_choice_vectors(seed, "C06", name, count, 400);
        for (i, v) in vectors.iter().enumerate() {
            if let Some((fam, idx)) = &only {
                if fam != name || *idx != i {
                    continue;
                }
            }
            let mut s = Src::new(v);
            // a panic under one build / thread count is an output like any other (it differs from the serial run)
            let (desc, kv) = match catch(|| f(&mut s, tier)) {
                Ok(r) => r,
                Err(pn) => (format!("{name} case {i}"), vec![("panic".to_string(), pn.key().replace([';', '=', '\t'], " "))]),
            };
            let body: Vec<String> = kv.iter().map(|(k, v)| format!("{k}={v}")).collect();
            println!("{name}#{i}\t{desc}\t{}", body.join(";"));
        }
    }
}

// DRIVER
// ================================================================================================

fn parse(out: &str) -> BTreeMap<String, (String, BTreeMap<String, String>)> {
    let mut m = BTreeMap::new();
    for line in out.lines() {
        let parts: Vec<&str> = line.split('\t').collect();
        if parts.len() != 3 {
            continue;
        }
        let kv = parts[2].split(';').filter_map(|p| p.split_once('=')).map(|(a, b)| (a.to_string(), b.to_string())).collect();
        m.insert(parts[0].to_string(), (parts[1].to_string(), kv));
    }
    m
}

fn run_variant(exe: &str, seed: u64, tier: Tier, threads: Option<usize>, only: &Option<(String, usize)>) -> Result<String, String> {
    let mut c = Command::new(exe);
    c.args(["--emit", "--seed", &seed.to_string(), "--tier", tier.name()]);
    if let Some((f, i)) = only {
        c.args(["--only", &format!("{f}#{i}")]);
    }
    if let Some(t) = threads {
        c.env("RAYON_NUM_THREADS", t.to_string());
    }
    let out = c.output().map_err(|e| format!("cannot run {exe}: {e}"))?;
    if !out.status.success() {
        return Err(format!("{exe} exited with {:?}: {}", out.status, String::from_utf8_lossy(&out.stderr).chars().take(400).collect::<String>()));
    }
    Ok(String::from_utf8_lossy(&out.stdout).to_string())
}

fn driver(ex: &mut Ex) {
    let seed: u64 = std::env::var("VERIF_SEED").ok().and_then(|s| s.trim().parse::<i128>().ok()).map(|v| v as u64).unwrap_or(0);
    let tier = ex.tier;
    let only: Option<(String, usize)> = std::env::var("VDET_ONLY").ok().and_then(|s| s.split_once('#').map(|(a, b)| (a.to_string(), b.parse().unwrap_or(0))));
    let me = std::env::current_exe().unwrap().to_string_lossy().to_string();
    let conc = std::env::var("VDET_CONCURRENT").unwrap_or_default();
    let asy = std::env::var("VDET_ASYNC").unwrap_or_default();
    if conc.is_empty() || asy.is_empty() {
        ex.fail("harness-missing-variants", "VDET_CONCURRENT / VDET_ASYNC not set (run through ./check C06)".into(), json!({}));
        return;
    }
    let serial = match run_variant(&me, seed, tier, None, &only) {
        Ok(o) => parse(&o),
        Err(e) => {
            ex.fail("harness-serial-run", e, json!({}));
            return;
        },
    };
    // counts above the number of cores are legal pool sizes (RAYON_NUM_THREADS) and exercise partitions smaller than the data
    let thread_counts: Vec<usize> = if tier == Tier::Thorough { (1..=16).chain([24, 33, 64, 100, 128, 300]).collect() } else { vec![1, 2, 3, 4, 5, 7, 8, 12, 16, 33, 128] };
    let repeats = if tier == Tier::Thorough { 2 } else { 1 };
    let mut variants: Vec<(String, BTreeMap<String, (String, BTreeMap<String, String>)>)> = vec![];
    match run_variant(&asy, seed, tier, None, &only) {
        Ok(o) => variants.push(("async".into(), parse(&o))),
        Err(e) => {
            ex.fail("harness-async-run", e, json!({}));
            return;
        },
    }
    for t in &thread_counts {
        for r in 0..repeats {
            match run_variant(&conc, seed, tier, Some(*t), &only) {
                Ok(o) => variants.push((format!("concurrent/{t} threads/run {r}"), parse(&o))),
                Err(e) => {
                    ex.fail("harness-concurrent-run", e, json!({"threads": t}));
                    return;
                },
            }
        }
    }
    ex.space(json!({"cases": serial.len(), "variants": variants.iter().map(|v| v.0.clone()).collect::<Vec<_>>(), "thread_counts": thread_counts}));
    let mut sampled = 0;
    for (id, (desc, kv)) in &serial {
        let family = id.split('#').next().unwrap_or("");
        let lde: usize = kv.get("lde").and_then(|x| x.parse().ok()).unwrap_or(0);
        let nontrivial = match family {
            "proof" => lde >= 1024,
            _ => true,
        };
        if kv.get("verifies").map(|v| v == "false").unwrap_or(false) {
            ex.fail("serial-proof-does-not-verify", format!("{id} ({desc}): the serial build's proof does not verify"), json!({"case": id, "desc": desc}));
        }
        if family == "proof" {
            ex.class(if lde >= 8192 { "proof_lde_ge_8192" } else if lde >= 1024 { "proof_lde_ge_1024" } else { "proof_small" }, 1);
        }
        for (vname, vmap) in &variants {
            ex.case(fnv_of(&(id, vname)), nontrivial);
            let Some((_, vkv)) = vmap.get(id) else {
                ex.fail("variant-missing-case", format!("{vname} did not produce case {id}"), json!({"case": id, "variant": vname}));
                continue;
            };
            ex.class(&format!("family:{family}"), 1);
            if family == "proof" {
                // context, commitments and OOD frame must be byte-identical; the whole proof whenever the nonce is equal
                for k in ["context", "commitments", "ood", "verifies", "prover_error", "prover_panic"] {
                    if kv.get(k) != vkv.get(k) {
                        ex.fail(&format!("proof-differs:{k}"), format!("{id} ({desc}): `{k}` of the proof differs between the serial build and {vname}"), json!({"case": id, "desc": desc, "variant": vname, "field": k, "replay_env": format!("VDET_ONLY={id}")}));
                    }
                }
                if kv.get("nonce") == vkv.get("nonce") {
                    ex.class("nonce_equal", 1);
                    if kv.get("proof") != vkv.get("proof") {
                        ex.fail("proof-differs:whole", format!("{id} ({desc}): same nonce but different proof bytes in {vname}"), json!({"case": id, "desc": desc, "variant": vname, "replay_env": format!("VDET_ONLY={id}")}));
                    }
                } else {
                    ex.class("nonce_different", 1);
                }
            } else {
                for (k, v) in kv {
                    if vkv.get(k) != Some(v) {
                        ex.fail(&format!("{family}-differs:{}", k.split('_').next().unwrap_or(k)), format!("{id} ({desc}): `{k}` differs between the serial build and {vname}"), json!({"case": id, "desc": desc, "variant": vname, "field": k, "replay_env": format!("VDET_ONLY={id}")}));
                    }
                }
            }
        }
        if sampled < 6 && nontrivial {
            sampled += 1;
            ex.sample(json!({"case": id, "desc": desc, "digests": kv}));
        }
    }
}

fn main() {
    let args: Vec<String> = std::env::args().collect();
    if args.iter().any(|a| a == "--emit") {
        let get = |k: &str| args.iter().position(|a| a == k).and_then(|i| args.get(i + 1)).cloned();
        let seed = get("--seed").and_then(|s| s.parse().ok()).unwrap_or(0);
        let tier = if get("--tier").as_deref() == Some("thorough") { Tier::Thorough } else { Tier::Quick };
        let only = get("--only").and_then(|s| s.split_once('#').map(|(a, b)| (a.to_string(), b.parse().unwrap_or(0))));
        let _ = VARIANT;
        emit(seed, tier, only);
        return;
    }
    let c06 = Prop {
        id: "C06",
        level: "exploration",
        rule: "case = one generated input of a family (proof: GenAir instance + options with LDE sizes 2^7..2^15 around the 1024 and 8192 thresholds, grinding 0 or 8, one case in six wide and short: up to 130 columns over 8..32 rows, one in five with periodic columns whose cycle is a quarter of the trace or longer over 2^11..2^12 rows; fft: sizes 256..2^14; batch: lengths around 1024, 8*1024, 16*1024; merkle: 512..2^13 leaves; matrix: 1..120 columns; tables: fragments of every length) x one build variant (async; concurrent with RAYON_NUM_THREADS in {1,2,3,4,5,7,8,12,16,33,128}, thorough: 1..16 and {24,33,64,100,128,300} twice). The same case list is regenerated in every build from the same proptest strategy and ChaCha seed. Oracle: digests of the outputs equal the serial build's: for proofs the context, commitments and OOD frame always, the whole proof whenever the nonce is equal, and every proof verifies; for the other families every output. Non-trivial = some parallel path is active (proof LDE >= 1024; all other families are sized to cross their thresholds); distinct = (case, variant).",
        assumptions: vec![
            "thread schedules are explored by thread count, repeated runs and data sizes around the chunking thresholds; an interleaving-dependent race that does not depend on the partitioning would need a schedule-owning tool and is out of reach of this family (DESIGN.md section 7)",
            "the async variant is driven by a block_on with a no-op waker: the prover never actually suspends",
        ],
        subs: vec![Sub::exhaustive("driver:differential", driver)],
        required: vec!["family:proof", "family:fft", "family:batch", "family:merkle", "family:matrix", "family:tables", "proof_lde_ge_1024", "proof_lde_ge_8192", "nonce_equal"],
        required_thorough: vec![],
    };
    // the thread clauses of C12, C14, C18 and C28 are decided by the same differential restricted to
    // their family (stage of ./check C12 etc.; evidence merged into that property's evidence file)
    let stage = |id: &'static str, _fams: &'static str, required: Vec<&'static str>, what: &'static str| -> Prop {
        Prop {
            id,
            level: "exploration",
            rule: what,
            assumptions: vec!["thread schedules are explored by thread count, repeated runs and data sizes around the chunking thresholds (DESIGN.md section 7)"],
            subs: vec![Sub::exhaustive("driver:differential", driver)],
            required,
            required_thorough: vec![],
        }
    };
    let props = vec![
        c06,
        stage("C12", "fft", vec!["family:fft"], "thread clause of C12: generated FFT inputs (sizes 16..2^14 across the 1024-element concurrency threshold, odd and even log sizes, base and extension coefficients) evaluated / interpolated by the serial build and by the concurrent build under RAYON_NUM_THREADS in {1,2,3,4,5,7,8,12,16,33,128} (thorough: 1..16 and {24,33,64,100,128,300}, twice): digests of every output must be equal. Non-trivial = every case (sizes chosen to reach the parallel path); distinct = (case, variant)."),
        stage("C14", "batch", vec!["family:batch"], "thread clause of C14: batch_inversion, get_power_series(_with_offset), add_in_place, mul_acc on lengths around 1024, 8*1024, 16*1024 and lengths not divisible by the thread count, serial build vs concurrent build under RAYON_NUM_THREADS in {1,2,3,4,5,7,8,12,16,33,128}: digests of every output equal."),
        stage("C18", "merkle", vec!["family:merkle"], "thread clause of C18: Merkle trees of 512..2^13 leaves built by the serial and the concurrent build under every thread count: identical roots, nodes and openings."),
        stage("C28", "matrix,tables", vec!["family:matrix", "family:tables"], "thread clause of C28: LDE row matrices (1..120 columns), row commitments and trace-table fills built by the serial and the concurrent build under every thread count: identical digests."),
    ];
    main_with(props);

}
