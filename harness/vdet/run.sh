#!/usr/bin/env bash
# C06 driver: builds vdet three times (serial / concurrent / async) into separate target
# directories and lets the serial binary compare the outputs (DESIGN 3.6).
set -u
HERE="$(cd "$(dirname "${BASH_SOURCE[0]}")" && pwd)"
HARNESS="$(dirname "$HERE")"
ID="$1"; shift
cd "$HARNESS" || exit 2
build() { # feature, target dir
  local log; log="$(mktemp)"
  if ! cargo build --release -p vdet --features "$1" --target-dir "$2" >"$log" 2>&1; then
    echo "BUILD FAILED for vdet ($1):" >&2; tail -n 60 "$log" >&2; rm -f "$log"; exit 2
  fi
  rm -f "$log"
}
build serial "$HARNESS/target" &
P1=$!
build concurrent "$HARNESS/target-concurrent" &
P2=$!
build async "$HARNESS/target-async" &
P3=$!
wait $P1 || exit 2
wait $P2 || exit 2
wait $P3 || exit 2
export VDET_CONCURRENT="$HARNESS/target-concurrent/release/vdet"
export VDET_ASYNC="$HARNESS/target-async/release/vdet"
exec "$HARNESS/target/release/vdet" --prop "$ID" "$@"
