//! vfield — bridge between winter-math field types and the reference arithmetic of `vref`, plus
//! boundary-biased element generators shared by the math / crypto / fri / stark checks.

use vcore::Src;
pub use vref::field::{Ctx, Elt, P128, P62, P64};
use vref::field::*;
use winter_math::fields::{f128, f62, f64, CubeExtension, QuadExtension};
use winter_math::{ExtensibleField, FieldElement, StarkField};
use winter_utils::AsBytes;

pub type Q<B> = QuadExtension<B>;
pub type C<B> = CubeExtension<B>;

/// One supported prime field together with its documented parameters.
pub trait Spec: 'static + Send + Sync {
    type B: StarkField + ExtensibleField<2> + ExtensibleField<3>;
    const NAME: &'static str;
    const P: u128;
    const BITS: u32;
    /// documented irreducible polynomial of the quadratic extension, low coefficients (monic)
    const QUAD: [i64; 2];
    /// documented irreducible polynomial of the cubic extension, if supported
    const CUBE: Option<[i64; 3]>;
    /// element with canonical value v (v < P), built through the documented constructor
    fn from_int(v: u128) -> Self::B;
    fn to_int(b: &Self::B) -> u128;
    /// internal representation (limb) read through the zero-copy `as_bytes()`
    fn raw(b: &Self::B) -> u128 {
        let bytes = b.as_bytes();
        let mut v = [0u8; 16];
        v[..bytes.len()].copy_from_slice(bytes);
        u128::from_le_bytes(v)
    }
    /// is the internal representation the unique canonical one for its value
    fn raw_is_canonical(b: &Self::B) -> bool;
    /// an element chosen by its internal representation, with its reference value and a class label
    fn repr_leaf(_s: &mut Src) -> Option<(Self::B, u128, &'static str)> {
        None
    }
    /// exponent type of the field from a u128 (truncated to the type's width)
    fn pint(v: u128) -> <Self::B as FieldElement>::PositiveInteger;
    /// operations that exist only on this concrete base field type: (result, reference value, label)
    fn special_op(_s: &mut Src, _x: &Self::B, _xv: u128) -> Option<(Self::B, u128, &'static str)> {
        None
    }
}

pub struct F62;
pub struct F64;
pub struct F128;

impl Spec for F62 {
    type B = f62::BaseElement;
    const NAME: &'static str = "f62";
    const P: u128 = P62;
    const BITS: u32 = 62;
    const QUAD: [i64; 2] = [-1, -1]; // x^2 - x - 1
    const CUBE: Option<[i64; 3]> = Some([2, 2, 0]); // x^3 + 2x + 2
    fn from_int(v: u128) -> Self::B {
        f62::BaseElement::new(v as u64)
    }
    fn to_int(b: &Self::B) -> u128 {
        b.as_int() as u128
    }
    fn raw_is_canonical(b: &Self::B) -> bool {
        Self::raw(b) < P62
    }
    fn pint(v: u128) -> u64 {
        v as u64
    }
    fn repr_leaf(s: &mut Src) -> Option<(Self::B, u128, &'static str)> {
        // the representation lives in [0, 2M); non-canonical limbs are reachable only through
        // operations, so the leaf is built by a short operation chain with a known value
        let v = gen_int::<F62>(s);
        let x = Self::from_int(v);
        match s.below(4) {
            0 => Some((x + (-x), 0, "zero_via_x_plus_neg_x")),
            1 => Some((-x, negmod(v, P62), "negated")),
            2 => {
                // sum landing in [M, 2^62): limb(a) = M-1, limb(b) small
                let rinv = invmod((1u128 << 64) % P62, P62);
                let small = s.below(1 << 40) as u128 + 1;
                let va = mulmod(P62 - 1, rinv, P62);
                let vb = mulmod(small, rinv, P62);
                let a = Self::from_int(va);
                let b = Self::from_int(vb);
                Some((a + b, addmod(va, vb, P62), "sum_in_upper_band"))
            },
            _ => {
                let w = gen_int::<F62>(s);
                Some((x * Self::from_int(w), mulmod(v, w, P62), "product"))
            },
        }
    }
}

impl Spec for F64 {
    type B = f64::BaseElement;
    const NAME: &'static str = "f64";
    const P: u128 = P64;
    const BITS: u32 = 64;
    const QUAD: [i64; 2] = [2, -1]; // x^2 - x + 2
    const CUBE: Option<[i64; 3]> = Some([-1, -1, 0]); // x^3 - x - 1
    fn from_int(v: u128) -> Self::B {
        f64::BaseElement::new(v as u64)
    }
    fn to_int(b: &Self::B) -> u128 {
        b.as_int() as u128
    }
    fn raw_is_canonical(b: &Self::B) -> bool {
        Self::raw(b) < P64
    }
    fn pint(v: u128) -> u64 {
        v as u64
    }
    fn special_op(s: &mut Src, x: &Self::B, xv: u128) -> Option<(Self::B, u128, &'static str)> {
        match s.below(3) {
            0 => {
                let k: u32 = match s.below(4) {
                    0 => s.below(8) as u32,
                    1 => u32::MAX - s.below(4) as u32,
                    2 => 1u32 << s.below(32),
                    _ => s.u64() as u32,
                };
                Some((x.mul_small(k), mulmod(xv, k as u128, P64), "mul_small"))
            },
            1 => Some((x.exp7(), powmod(xv, 7, P64), "exp7")),
            _ => Some((f64::BaseElement::from_mont(x.inner()), xv, "from_mont_inner")),
        }
    }
    fn repr_leaf(s: &mut Src) -> Option<(Self::B, u128, &'static str)> {
        // Montgomery limb chosen in a boundary band; `from_mont` documents that it takes a value
        // in canonical Montgomery form, i.e. any limb below the modulus
        let m = P64 as u64;
        let (limb, label): (u64, &'static str) = match s.below(6) {
            0 => (s.below(1 << 33), "limb_low_band"),
            1 => ((1u64 << 63) - (1 << 32) + s.below(1 << 33), "limb_mid_band"),
            2 => (m - 1 - s.below(1 << 33), "limb_top_band"),
            3 => ((1u64 << 63) - (1 << 31) + s.below(1 << 31), "limb_double_band"),
            4 => ((1u64 << 32) * s.below(1 << 32) + s.pick_copy(&[0u64, 1, 0xffff_ffff]), "limb_32bit_multiple"),
            _ => (s.u64() % m, "limb_uniform"),
        };
        let limb = limb % m;
        let rinv = invmod((1u128 << 64) % P64, P64);
        Some((f64::BaseElement::from_mont(limb), mulmod(limb as u128, rinv, P64), label))
    }
}

impl Spec for F128 {
    type B = f128::BaseElement;
    const NAME: &'static str = "f128";
    const P: u128 = P128;
    const BITS: u32 = 128;
    const QUAD: [i64; 2] = [-1, -1]; // x^2 - x - 1
    const CUBE: Option<[i64; 3]> = None;
    fn from_int(v: u128) -> Self::B {
        f128::BaseElement::new(v)
    }
    fn to_int(b: &Self::B) -> u128 {
        b.as_int()
    }
    fn raw_is_canonical(b: &Self::B) -> bool {
        Self::raw(b) < P128
    }
    fn pint(v: u128) -> u128 {
        v
    }
}

/// boundary-biased canonical value below the modulus
pub fn gen_int<S: Spec>(s: &mut Src) -> u128 {
    let p = S::P;
    let d = s.below(5) as u128;
    let v: u128 = match s.below(14) {
        0 => d,
        1 => p - 1 - d,
        2 => (p - 1) / 2 + d,
        3 => (p + 1) / 2 - d.min((p + 1) / 2),
        4 => (1u128 << 32).wrapping_add(d).wrapping_sub(2),
        5 => (1u128 << 63).wrapping_add(d).wrapping_sub(2),
        6 => (1u128 << 64).wrapping_sub(d + 1),
        7 => (1u128 << 31).wrapping_add(d).wrapping_sub(2),
        8 => {
            let k = s.below(S::BITS as u64) as u32;
            (1u128 << k).wrapping_add(d).wrapping_sub(2)
        },
        9 => s.below(1 << 16) as u128,
        10 => p.wrapping_sub(s.below(1 << 33) as u128),
        _ => s.u128(),
    };
    v % p
}

pub fn ctx_for<S: Spec>(degree: usize) -> Ctx {
    match degree {
        1 => Ctx::base(S::P),
        2 => Ctx::ext(S::P, &S::QUAD),
        3 => Ctx::ext(S::P, &S::CUBE.expect("cubic extension not supported for this field")),
        _ => panic!("unsupported extension degree"),
    }
}

/// element of E (base, quadratic or cubic extension over S::B) from canonical coefficient values
pub fn from_ints<S: Spec, E: FieldElement<BaseField = S::B>>(v: &[u128]) -> E {
    assert_eq!(v.len(), E::EXTENSION_DEGREE);
    let base: Vec<S::B> = v.iter().map(|x| S::from_int(*x)).collect();
    E::slice_from_base_elements(&base)[0]
}
pub fn from_bases<S: Spec, E: FieldElement<BaseField = S::B>>(v: &[S::B]) -> E {
    assert_eq!(v.len(), E::EXTENSION_DEGREE);
    E::slice_from_base_elements(v)[0]
}
pub fn to_ints<S: Spec, E: FieldElement<BaseField = S::B>>(e: &E) -> Vec<u128> {
    E::slice_as_base_elements(core::slice::from_ref(e)).iter().map(|b| S::to_int(b)).collect()
}
pub fn to_bases<S: Spec, E: FieldElement<BaseField = S::B>>(e: &E) -> Vec<S::B> {
    E::slice_as_base_elements(core::slice::from_ref(e)).to_vec()
}
pub fn ctx_of<S: Spec, E: FieldElement<BaseField = S::B>>() -> Ctx {
    ctx_for::<S>(E::EXTENSION_DEGREE)
}

/// a generated element together with its reference value
pub fn gen_elem<S: Spec, E: FieldElement<BaseField = S::B>>(s: &mut Src) -> (E, Elt) {
    let d = E::EXTENSION_DEGREE;
    let mut bases = Vec::with_capacity(d);
    let mut vals = Vec::with_capacity(d);
    // extension elements are frequently embedded base elements or sparse
    let shape = if d > 1 { s.below(6) } else { 5 };
    for i in 0..d {
        let zero = match shape {
            0 => i > 0,
            1 => i != 1,
            2 => i + 1 != d,
            _ => false,
        };
        if zero {
            bases.push(S::from_int(0));
            vals.push(0);
        } else if s.chance(1, 3) {
            match S::repr_leaf(s) {
                Some((b, v, _)) => {
                    bases.push(b);
                    vals.push(v);
                },
                None => {
                    let v = gen_int::<S>(s);
                    bases.push(S::from_int(v));
                    vals.push(v);
                },
            }
        } else {
            let v = gen_int::<S>(s);
            bases.push(S::from_int(v));
            vals.push(v);
        }
    }
    (from_bases::<S, E>(&bases), vals)
}

/// uniform-ish element (no boundary bias), cheaper: for bulk data such as polynomial coefficients
pub fn gen_elem_plain<S: Spec, E: FieldElement<BaseField = S::B>>(s: &mut Src) -> (E, Elt) {
    let d = E::EXTENSION_DEGREE;
    let vals: Vec<u128> = (0..d).map(|_| s.u128() % S::P).collect();
    (from_ints::<S, E>(&vals), vals)
}

/// deterministic pseudo-random elements from a seed (splitmix), for large vectors where spending
/// choice-sequence entries per element would be wasteful
pub struct Mix(pub u64);
impl Mix {
    pub fn next(&mut self) -> u64 {
        self.0 = self.0.wrapping_add(0x9e3779b97f4a7c15);
        let mut z = self.0;
        z = (z ^ (z >> 30)).wrapping_mul(0xbf58476d1ce4e5b9);
        z = (z ^ (z >> 27)).wrapping_mul(0x94d049bb133111eb);
        z ^ (z >> 31)
    }
    pub fn int<S: Spec>(&mut self) -> u128 {
        let v = ((self.next() as u128) << 64) | self.next() as u128;
        v % S::P
    }
    pub fn elem<S: Spec, E: FieldElement<BaseField = S::B>>(&mut self) -> (E, Elt) {
        let vals: Vec<u128> = (0..E::EXTENSION_DEGREE).map(|_| self.int::<S>()).collect();
        (from_ints::<S, E>(&vals), vals)
    }
}

pub fn all_raw_canonical<S: Spec, E: FieldElement<BaseField = S::B>>(e: &E) -> bool {
    to_bases::<S, E>(e).iter().all(|b| S::raw_is_canonical(b))
}

pub fn show(v: &[u128]) -> String {
    if v.len() == 1 {
        format!("{}", v[0])
    } else {
        format!("({})", v.iter().map(|x| x.to_string()).collect::<Vec<_>>().join(", "))
    }
}

/// Runs `$body` with `$S` bound to each supported field spec selected by `$idx` (0 f62, 1 f64, 2 f128).
#[macro_export]
macro_rules! with_field {
    ($idx:expr, $S:ident, $body:block) => {
        match $idx {
            0 => {
                type $S = $crate::F62;
                $body
            },
            1 => {
                type $S = $crate::F64;
                $body
            },
            _ => {
                type $S = $crate::F128;
                $body
            },
        }
    };
}
