//! C13 — polynomial helpers agree with reference polynomial arithmetic.

use vcore::*;
use vfield::*;
use vref::poly::*;
use winter_math::fields::{f128, f62, f64};
use winter_math::{polynom, FieldElement};

pub fn prop() -> Prop {
    Prop {
        id: "C13",
        level: "exploration",
        rule: "case = (element type among f62, f64, f128, Quad f64, Cube f64, Quad f128; function; coefficient vectors of length 1..64 with shapes {random, zero, leading-zero padded, sparse, boundary-biased}; points incl. 0, 1 and roots; divisors meeting the documented preconditions). Oracle: schoolbook polynomial arithmetic / long division / Lagrange interpolation over the reference field. Non-trivial = operands non-constant; distinct = hash of (type, function, operand values).",
        assumptions: vec![
            "inputs the rustdoc excludes are not generated: empty operands, zero divisor, divisor of higher degree, x^a - b with a = 0, b = 0 or a >= len, empty root lists, repeated interpolation abscissae",
            "div results are compared as polynomials (modulo high zero coefficients); syn_div results are compared exactly, padded to p.len() as documented",
        ],
        subs: vec![Sub::gen("polynom", poly_case, 400, 250_000, 8_000_000)],
        required: vec!["non_exact_division", "divisor_degree_gt_1", "leading_zeros", "duplicate_roots", "ext_field", "syn_div_b_is_one", "zero_polynomial", "interpolate_batch", "eval_base_coeffs_at_ext_point"],
        required_thorough: vec![],
    }
}

fn poly_case(s: &mut Src, rec: &mut Rec) -> CaseResult {
    match s.below(6) {
        0 => run::<F62, f62::BaseElement>(s, rec),
        1 => run::<F64, f64::BaseElement>(s, rec),
        2 => run::<F128, f128::BaseElement>(s, rec),
        3 => run::<F64, Q<f64::BaseElement>>(s, rec),
        4 => run::<F64, C<f64::BaseElement>>(s, rec),
        _ => run::<F128, Q<f128::BaseElement>>(s, rec),
    }
}

fn gen_poly<S: Spec, E: FieldElement<BaseField = S::B>>(s: &mut Src, ctx: &Ctx, min_len: usize, max_len: usize, rec: &mut Rec) -> (Vec<E>, Poly) {
    let len = match s.below(4) {
        0 => s.range(min_len as u64, (min_len + 3).min(max_len) as u64),
        _ => s.range(min_len as u64, max_len as u64),
    } as usize;
    let shape = s.below(8);
    let mut imp = Vec::with_capacity(len);
    let mut re = Vec::with_capacity(len);
    let nz_until = if shape == 1 { s.below(len as u64 + 1) as usize } else { len };
    if shape == 1 && nz_until < len {
        rec.class("leading_zeros");
    }
    for i in 0..len {
        let zero = match shape {
            0 => true,
            1 => i >= nz_until,
            2 => !(i == 0 || i + 1 == len || i == len / 2),
            _ => false,
        };
        if zero {
            imp.push(E::ZERO);
            re.push(ctx.zero());
        } else {
            let (e, v) = if i < 6 || shape == 3 { gen_elem::<S, E>(s) } else { gen_elem_plain::<S, E>(s) };
            imp.push(e);
            re.push(v);
        }
    }
    if re.iter().all(|c| ctx.is_zero(c)) {
        rec.class("zero_polynomial");
    }
    (imp, re)
}

fn ints<S: Spec, E: FieldElement<BaseField = S::B>>(v: &[E]) -> Poly {
    v.iter().map(|e| to_ints::<S, E>(e)).collect()
}

fn showp(p: &[Elt]) -> String {
    let items: Vec<String> = p.iter().take(10).map(|c| show(c)).collect();
    format!("[{}{}]", items.join(", "), if p.len() > 10 { format!(", ..{} more", p.len() - 10) } else { String::new() })
}

fn run<S: Spec, E: FieldElement<BaseField = S::B> + From<S::B>>(s: &mut Src, rec: &mut Rec) -> CaseResult {
    let ctx = ctx_of::<S, E>();
    let bctx = ctx_for::<S>(1);
    let d = E::EXTENSION_DEGREE;
    let tname = format!("{}^{}", S::NAME, d);
    rec.class_if(d > 1, "ext_field");
    let func = s.below(16);
    let fname = [
        "eval", "eval_base_at_ext", "eval_many", "interpolate", "interpolate_batch", "add", "sub", "mul", "mul_by_scalar", "div", "syn_div", "syn_div_in_place",
        "syn_div_roots_in_place", "degree_of", "remove_leading_zeros", "poly_from_roots",
    ][func as usize];
    rec.class(&format!("fn:{fname}"));
    macro_rules! guard {
        ($e:expr) => {
            match catch(|| $e) {
                Ok(v) => v,
                Err(pn) => return Err(Fail::new(pn.key(), format!("{tname} polynom::{fname} panicked on an input meeting its documented preconditions: {} ({})", pn.message, pn.location))),
            }
        };
    }
    macro_rules! same {
        ($got:expr, $want:expr, $what:expr) => {{
            let g = ints::<S, E>(&$got);
            let w: Poly = $want;
            if g != w {
                return Err(Fail::new(format!("polynom-wrong:{fname}"), format!("{tname} {}: got {} but the reference gives {}", $what, showp(&g), showp(&w))));
            }
        }};
    }
    match func {
        0 | 2 => {
            let (p, pr) = gen_poly::<S, E>(s, &ctx, 1, 64, rec);
            if pr.len() > 1 {
                rec.nontrivial();
            }
            let npts = if func == 0 { 1 } else { s.range(0, 6) as usize };
            let mut xs = vec![];
            let mut xr = vec![];
            for _ in 0..npts {
                let (x, xv) = match s.below(4) {
                    0 => (E::ZERO, ctx.zero()),
                    1 => (E::ONE, ctx.one()),
                    _ => gen_elem::<S, E>(s),
                };
                xs.push(x);
                xr.push(xv);
            }
            rec.set_fp(&(&tname, func, &pr, &xr));
            rec.describe(|| json!({"type": tname, "function": fname, "poly": showp(&pr), "points": showp(&xr)}));
            if func == 0 {
                let got = guard!(polynom::eval(&p, xs[0]));
                let want = peval(&ctx, &pr, &xr[0]);
                same!([got], vec![want], format!("eval({}, {})", showp(&pr), show(&xr[0])));
            } else {
                let got = guard!(polynom::eval_many(&p, &xs));
                let want: Poly = xr.iter().map(|x| peval(&ctx, &pr, x)).collect();
                same!(got, want, format!("eval_many({})", showp(&pr)));
            }
        },
        1 => {
            // base-field coefficients evaluated at an extension point
            rec.class("eval_base_coeffs_at_ext_point");
            let (p, pr) = gen_poly::<S, S::B>(s, &bctx, 1, 48, rec);
            let (x, xv) = gen_elem::<S, E>(s);
            if pr.len() > 1 {
                rec.nontrivial();
            }
            rec.set_fp(&(&tname, func, &pr, &xv));
            rec.describe(|| json!({"type": tname, "function": fname, "poly": showp(&pr), "point": show(&xv)}));
            let got: E = guard!(polynom::eval(&p, x));
            let lifted: Poly = pr.iter().map(|c| ctx.from_base(c[0])).collect();
            let want = peval(&ctx, &lifted, &xv);
            same!([got], vec![want], "eval(base coefficients, extension point)");
        },
        3 => {
            let n = s.range(1, 20) as usize;
            let mut xs: Vec<E> = vec![];
            let mut xr: Poly = vec![];
            while xs.len() < n {
                let (x, xv) = if s.chance(1, 6) { (E::ZERO, ctx.zero()) } else { gen_elem::<S, E>(s) };
                if !xr.contains(&xv) {
                    xs.push(x);
                    xr.push(xv);
                } else {
                    // replace by a value derived from the index: distinct by construction
                    let v = ctx.from_base((1000 + xs.len()) as u128);
                    if !xr.contains(&v) {
                        xs.push(from_ints::<S, E>(&v));
                        xr.push(v);
                    }
                }
            }
            // ys: either arbitrary, or the values of a low-degree polynomial (leading coefficients then vanish)
            let low = s.chance(1, 3);
            let (ys, yr): (Vec<E>, Poly) = if low {
                let (_, qr) = gen_poly::<S, E>(s, &ctx, 1, n.div_ceil(2), rec);
                let yr: Poly = xr.iter().map(|x| peval(&ctx, &qr, x)).collect();
                (yr.iter().map(|v| from_ints::<S, E>(v)).collect(), yr)
            } else {
                let mut a = vec![];
                let mut b = vec![];
                for _ in 0..n {
                    let (y, yv) = gen_elem::<S, E>(s);
                    a.push(y);
                    b.push(yv);
                }
                (a, b)
            };
            let remove = s.bool();
            if n > 1 {
                rec.nontrivial();
            }
            rec.set_fp(&(&tname, func, &xr, &yr, remove));
            rec.describe(|| json!({"type": tname, "function": fname, "xs": showp(&xr), "ys": showp(&yr), "remove_leading_zeros": remove}));
            let got = guard!(polynom::interpolate(&xs, &ys, remove));
            let mut want = pinterpolate(&ctx, &xr, &yr);
            if remove {
                while !want.is_empty() && ctx.is_zero(want.last().unwrap()) {
                    want.pop();
                }
            } else {
                want.resize(n, ctx.zero());
            }
            same!(got, want, format!("interpolate(xs = {}, ys = {}, remove_leading_zeros = {remove})", showp(&xr), showp(&yr)));
        },
        4 => {
            rec.class("interpolate_batch");
            macro_rules! batch {
                ($n:expr) => {{
                    let nb = s.range(1, 3) as usize;
                    let mut xs: Vec<[E; $n]> = vec![];
                    let mut ys: Vec<[E; $n]> = vec![];
                    let mut xr: Vec<Poly> = vec![];
                    let mut yr: Vec<Poly> = vec![];
                    for _ in 0..nb {
                        let mut xb: Poly = vec![];
                        while xb.len() < $n {
                            let (_, xv) = gen_elem::<S, E>(s);
                            if !xb.contains(&xv) {
                                xb.push(xv);
                            } else {
                                let v = ctx.from_base((5000 + xb.len()) as u128);
                                if !xb.contains(&v) {
                                    xb.push(v);
                                }
                            }
                        }
                        let yb: Poly = (0..$n).map(|_| gen_elem::<S, E>(s).1).collect();
                        xs.push(core::array::from_fn(|i| from_ints::<S, E>(&xb[i])));
                        ys.push(core::array::from_fn(|i| from_ints::<S, E>(&yb[i])));
                        xr.push(xb);
                        yr.push(yb);
                    }
                    rec.nontrivial();
                    rec.set_fp(&(&tname, func, $n, &xr, &yr));
                    rec.describe(|| json!({"type": tname, "function": fname, "batch_size": $n, "batches": nb, "xs0": showp(&xr[0])}));
                    let got = guard!(polynom::interpolate_batch(&xs, &ys));
                    ensure!(got.len() == nb, "polynom-wrong:interpolate_batch-length", "interpolate_batch returned {} polynomials for {nb} batches", got.len());
                    for b in 0..nb {
                        let mut want = pinterpolate(&ctx, &xr[b], &yr[b]);
                        want.resize($n, ctx.zero());
                        same!(got[b], want, format!("interpolate_batch::<{}> batch {b}", $n));
                    }
                }};
            }
            match s.below(4) {
                0 => batch!(2),
                1 => batch!(4),
                2 => batch!(8),
                _ => batch!(16),
            }
        },
        5 | 6 | 7 => {
            let (a, ar) = gen_poly::<S, E>(s, &ctx, 1, if func == 7 { 24 } else { 64 }, rec);
            let (b, br) = gen_poly::<S, E>(s, &ctx, 1, if func == 7 { 24 } else { 64 }, rec);
            if ar.len() > 1 && br.len() > 1 {
                rec.nontrivial();
            }
            rec.set_fp(&(&tname, func, &ar, &br));
            rec.describe(|| json!({"type": tname, "function": fname, "a": showp(&ar), "b": showp(&br)}));
            match func {
                5 => {
                    let got = guard!(polynom::add(&a, &b));
                    same!(got, padd(&ctx, &ar, &br), "add");
                },
                6 => {
                    let got = guard!(polynom::sub(&a, &b));
                    same!(got, psub(&ctx, &ar, &br), "sub");
                },
                _ => {
                    let got = guard!(polynom::mul(&a, &b));
                    same!(got, pmul(&ctx, &ar, &br), "mul");
                },
            }
        },
        8 => {
            let (a, ar) = gen_poly::<S, E>(s, &ctx, 1, 64, rec);
            let (k, kv) = gen_elem::<S, E>(s);
            if ar.len() > 1 {
                rec.nontrivial();
            }
            rec.set_fp(&(&tname, func, &ar, &kv));
            rec.describe(|| json!({"type": tname, "function": fname, "p": showp(&ar), "k": show(&kv)}));
            let got = guard!(polynom::mul_by_scalar(&a, k));
            same!(got, pscale(&ctx, &ar, &kv), "mul_by_scalar");
        },
        9 => {
            // Euclidean division, exact and non-exact
            let (b, br) = loop {
                let (b, br) = gen_poly::<S, E>(s, &ctx, 1, 12, rec);
                if !br.iter().all(|c| ctx.is_zero(c)) {
                    break (b, br);
                }
                if s.exhausted() {
                    break (vec![E::ONE], vec![ctx.one()]);
                }
            };
            let exact = s.bool();
            let (a, ar): (Vec<E>, Poly) = if exact {
                let (_, qr) = gen_poly::<S, E>(s, &ctx, 1, 20, rec);
                let mut prod = pmul(&ctx, &qr, &br);
                if s.bool() {
                    prod.push(ctx.zero());
                }
                (prod.iter().map(|c| from_ints::<S, E>(c)).collect(), prod)
            } else {
                let (mut a, mut ar) = gen_poly::<S, E>(s, &ctx, 1, 40, rec);
                // precondition: degree a >= degree b
                if pdeg(&ctx, &ar) < pdeg(&ctx, &br) {
                    let mut shifted = vec![ctx.zero(); pdeg(&ctx, &br)];
                    shifted.push(ctx.one());
                    ar = padd(&ctx, &ar, &shifted);
                    a = ar.iter().map(|c| from_ints::<S, E>(c)).collect();
                }
                (a, ar)
            };
            if pdeg(&ctx, &ar) < pdeg(&ctx, &br) {
                // only possible in the exact branch when q = 0 and deg b > 0: outside the documented domain
                rec.class("skipped_outside_domain");
                return Ok(());
            }
            let (q, r) = pdivrem(&ctx, &ar, &br);
            let nonexact = !(r.len() == 1 && ctx.is_zero(&r[0]));
            rec.class_if(nonexact, "non_exact_division");
            rec.class_if(pdeg(&ctx, &br) > 1, "divisor_degree_gt_1");
            if pdeg(&ctx, &br) >= 1 && pdeg(&ctx, &ar) >= 1 {
                rec.nontrivial();
            }
            rec.set_fp(&(&tname, func, &ar, &br));
            rec.describe(|| json!({"type": tname, "function": fname, "a": showp(&ar), "b": showp(&br), "exact": !nonexact}));
            let got = guard!(polynom::div(&a, &b));
            let g = ints::<S, E>(&got);
            if !peq(&ctx, &g, &q) {
                return Err(Fail::new("polynom-wrong:div", format!("{tname} div({}, {}) = {} but the quotient is {}", showp(&ar), showp(&br), showp(&g), showp(&q))));
            }
        },
        10 | 11 => {
            let (p, pr) = gen_poly::<S, E>(s, &ctx, 2, 64, rec);
            let a = s.range(1, (pr.len() - 1) as u64) as usize;
            let (b, bv) = match s.below(3) {
                0 => {
                    rec.class("syn_div_b_is_one");
                    (E::ONE, ctx.one())
                },
                _ => loop {
                    let (b, bv) = gen_elem::<S, E>(s);
                    if !ctx.is_zero(&bv) {
                        break (b, bv);
                    }
                    if s.exhausted() {
                        break (E::ONE, ctx.one());
                    }
                },
            };
            rec.class_if(a > 1, "divisor_degree_gt_1");
            let mut divisor = vec![ctx.zero(); a + 1];
            divisor[0] = ctx.neg(&bv);
            divisor[a] = ctx.one();
            let (mut q, r) = pdivrem(&ctx, &pr, &divisor);
            rec.class_if(!(r.len() == 1 && ctx.is_zero(&r[0])), "non_exact_division");
            q.resize(pr.len(), ctx.zero());
            rec.nontrivial();
            rec.set_fp(&(&tname, func, &pr, a, &bv));
            rec.describe(|| json!({"type": tname, "function": fname, "p": showp(&pr), "a": a, "b": show(&bv)}));
            let got = if func == 10 {
                guard!(polynom::syn_div(&p, a, b))
            } else {
                let mut v = p.clone();
                guard!(polynom::syn_div_in_place(&mut v, a, b));
                v
            };
            same!(got, q, format!("{fname}({}, {a}, {})", showp(&pr), show(&bv)));
        },
        12 => {
            let (p, pr) = gen_poly::<S, E>(s, &ctx, 2, 48, rec);
            let nroots = s.range(1, (pr.len() - 1).min(8) as u64) as usize;
            let mut roots = vec![];
            let mut rr: Poly = vec![];
            for i in 0..nroots {
                if i > 0 && s.chance(1, 4) {
                    rec.class("duplicate_roots");
                    let j = s.below(i as u64) as usize;
                    roots.push(roots[j]);
                    let v: Elt = rr[j].clone();
                    rr.push(v);
                } else {
                    let (x, xv) = gen_elem::<S, E>(s);
                    roots.push(x);
                    rr.push(xv);
                }
            }
            // with probability 1/2 make the division exact
            let (p, pr) = if s.bool() {
                let prod = pmul(&ctx, &pr[..pr.len() - nroots.min(pr.len() - 1)], &pfrom_roots(&ctx, &rr));
                let _ = p;
                (prod.iter().map(|c| from_ints::<S, E>(c)).collect::<Vec<E>>(), prod)
            } else {
                (p, pr)
            };
            if pr.len() <= nroots {
                rec.class("skipped_outside_domain");
                return Ok(());
            }
            let divisor = pfrom_roots(&ctx, &rr);
            let (mut q, r) = pdivrem(&ctx, &pr, &divisor);
            rec.class_if(!(r.len() == 1 && ctx.is_zero(&r[0])), "non_exact_division");
            rec.class_if(nroots > 1, "divisor_degree_gt_1");
            q.resize(pr.len(), ctx.zero());
            rec.nontrivial();
            rec.set_fp(&(&tname, func, &pr, &rr));
            rec.describe(|| json!({"type": tname, "function": fname, "p": showp(&pr), "roots": showp(&rr)}));
            let mut v = p.clone();
            guard!(polynom::syn_div_roots_in_place(&mut v, &roots));
            same!(v, q, format!("syn_div_roots_in_place({}, roots {})", showp(&pr), showp(&rr)));
        },
        13 | 14 => {
            let (p, pr) = gen_poly::<S, E>(s, &ctx, 0, 40, rec);
            rec.nontrivial = pr.len() > 1;
            rec.set_fp(&(&tname, func, &pr));
            rec.describe(|| json!({"type": tname, "function": fname, "p": showp(&pr)}));
            if func == 13 {
                let got = guard!(polynom::degree_of(&p));
                let want = if pr.is_empty() { 0 } else { pdeg(&ctx, &pr) };
                ensure!(got == want, "polynom-wrong:degree_of", "{tname} degree_of({}) = {got}, expected {want}", showp(&pr));
            } else {
                let got = guard!(polynom::remove_leading_zeros(&p));
                let mut want = pr.clone();
                while !want.is_empty() && ctx.is_zero(want.last().unwrap()) {
                    want.pop();
                }
                same!(got, want, "remove_leading_zeros");
            }
        },
        _ => {
            let n = s.range(0, 16) as usize;
            let mut roots = vec![];
            let mut rr: Poly = vec![];
            for i in 0..n {
                if i > 0 && s.chance(1, 4) {
                    rec.class("duplicate_roots");
                    roots.push(roots[i - 1]);
                    let v: Elt = rr[i - 1].clone();
                    rr.push(v);
                } else {
                    let (x, xv) = if s.chance(1, 6) { (E::ZERO, ctx.zero()) } else { gen_elem::<S, E>(s) };
                    roots.push(x);
                    rr.push(xv);
                }
            }
            rec.nontrivial = n > 1;
            rec.set_fp(&(&tname, func, &rr));
            rec.describe(|| json!({"type": tname, "function": fname, "roots": showp(&rr)}));
            let got = guard!(polynom::poly_from_roots(&roots));
            same!(got, pfrom_roots(&ctx, &rr), format!("poly_from_roots({})", showp(&rr)));
        },
    }
    Ok(())
}
