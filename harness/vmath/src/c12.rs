//! C12 — FFT evaluation and interpolation agree with naive polynomial evaluation.
//!
//! (The thread-independence clause is decided by the `vdet` differential build, see C06.)

use vcore::*;
use vfield::*;
use vref::field::*;
use vref::poly::*;
use winter_math::fft::{self, fft_inputs::FftInputs};
use winter_math::fields::{f128, f62, f64};
use winter_math::{FieldElement, StarkField};

pub fn prop() -> Prop {
    Prop {
        id: "C12",
        level: "exploration",
        rule: "case = (element type among f62/f64 x base,quad,cube and f128 x base,quad; size 2^1..2^13 (thorough 2^16); blowup 1..32; offset in {GENERATOR, 1, -1, boundary-band, random}; coefficient shape in {random, zero, constant, sparse, leading zeros}; function under test). Oracle: Horner evaluation with reference arithmetic at every domain point for sizes <= 256 (128 for f128), at first/last + 48 generated points above. Non-trivial = size >= 4 and non-zero polynomial; distinct = hash of (type, size, blowup, offset, shape, coefficient seed, function).",
        assumptions: vec![
            "sizes start at 2 (get_twiddles(1) documents a panic through get_root_of_unity(0))",
            "the multi-threaded clause (serial = concurrent for every thread count) needs two builds of winter-math and is decided by ./check C06 (vdet), sub-check family 'fft'",
            "reference domain points are powers of GENERATOR^((p-1)/N) computed with reference arithmetic (constants themselves are C11's subject)",
        ],
        subs: vec![
            Sub::gen("fft", fft_case, 96, 24_000, 300_000),
            Sub::exhaustive("permute_index", permute_index_all),
        ],
        required: vec!["size_512", "size_1024", "ext_coefficients", "offset_not_generator", "fn:evaluate_poly", "fn:evaluate_poly_with_offset", "fn:interpolate_poly", "fn:interpolate_poly_with_offset", "fn:serial_fft", "fn:infer_degree", "fn:twiddles", "fn:fft_inputs_array", "zero_poly", "blowup_gt_1"],
        required_thorough: vec![],
    }
}

fn permute_index_all(ex: &mut Ex) {
    for k in 0..=12u32 {
        let size = 1usize << k;
        for i in 0..size {
            let want = if k == 0 { 0 } else { (i as u64).reverse_bits() >> (64 - k) } as usize;
            let got = fft::permute_index(size, i);
            ex.case(fnv_of(&(k, i)), size >= 4);
            if got != want {
                ex.fail("permute_index", format!("permute_index({size}, {i}) = {got}, bit reversal is {want}"), json!({"size": size, "index": i}));
            }
        }
    }
    ex.space(json!({"sizes": "2^0..2^12", "all_indexes": true}));
    ex.sample(json!({"size": 8, "index": 3, "permuted": fft::permute_index(8, 3)}));
}

/// The evaluation domain is documented as the powers of `get_root_of_unity(log2 n)`; the root's
/// value is taken from the implementation (its exact order is C11's subject) and everything else
/// (powers, products, Horner) is reference arithmetic.
fn ref_root<S: Spec>(log_n: u32) -> u128 {
    let w = S::to_int(&<S::B as StarkField>::get_root_of_unity(log_n));
    debug_assert!(powmod(w, 1u128 << log_n, S::P) == 1);
    w
}

fn fft_case(s: &mut Src, rec: &mut Rec) -> CaseResult {
    match s.below(8) {
        0 => run::<F62, f62::BaseElement>(s, rec),
        1 => run::<F62, Q<f62::BaseElement>>(s, rec),
        2 => run::<F62, C<f62::BaseElement>>(s, rec),
        3 => run::<F64, f64::BaseElement>(s, rec),
        4 => run::<F64, Q<f64::BaseElement>>(s, rec),
        5 => run::<F64, C<f64::BaseElement>>(s, rec),
        6 => run::<F128, f128::BaseElement>(s, rec),
        _ => run::<F128, Q<f128::BaseElement>>(s, rec),
    }
}

fn run<S: Spec, E: FieldElement<BaseField = S::B>>(s: &mut Src, rec: &mut Rec) -> CaseResult {
    let thorough = std::env::var("VERIF_TIER").map(|t| t == "thorough").unwrap_or(false);
    let ctx = ctx_of::<S, E>();
    let p = S::P;
    let d = E::EXTENSION_DEGREE;
    let tname = format!("{}^{}", S::NAME, d);
    if d > 1 {
        rec.class("ext_coefficients");
    }
    let max_log: u32 = if thorough { 16 } else { 13 };
    let log_n: u32 = match s.below(10) {
        0..=3 => s.range(1, 6) as u32,
        4..=5 => s.range(7, 10) as u32,
        6 => 9,
        7 => 10,
        _ => s.range(1, max_log as u64) as u32,
    };
    let n = 1usize << log_n;
    rec.class_if(n == 512, "size_512");
    rec.class_if(n == 1024, "size_1024");
    // coefficients
    let shape = s.below(7);
    let seed = s.u64();
    let mut mix = Mix(seed);
    let mut coeffs: Vec<(E, Elt)> = Vec::with_capacity(n);
    for i in 0..n {
        let keep = match shape {
            0 => false,                       // zero polynomial
            1 => i == 0,                      // constant
            2 => i == 0 || i == n - 1 || i == n / 2, // sparse
            3 => i < n / 2 + 1,               // leading zeros
            _ => true,
        };
        if keep {
            if i < 4 {
                coeffs.push(gen_elem::<S, E>(s));
            } else {
                coeffs.push(mix.elem::<S, E>());
            }
        } else {
            coeffs.push((E::ZERO, ctx.zero()));
        }
    }
    let cref: Vec<Elt> = coeffs.iter().map(|c| c.1.clone()).collect();
    let cimp: Vec<E> = coeffs.iter().map(|c| c.0).collect();
    let true_degree = pdeg(&ctx, &cref);
    let is_zero = cref.iter().all(|c| ctx.is_zero(c));
    rec.class_if(is_zero, "zero_poly");
    if n >= 4 && !is_zero {
        rec.nontrivial();
    }
    let func = s.below(8);
    let fname = ["evaluate_poly", "evaluate_poly_with_offset", "interpolate_poly", "interpolate_poly_with_offset", "serial_fft", "infer_degree", "twiddles", "fft_inputs_array"][func as usize];
    rec.class(&format!("fn:{fname}"));
    // offset and blowup (only used by the *_with_offset functions and infer_degree)
    let g = S::to_int(&<S::B as StarkField>::GENERATOR);
    let (offset, offset_label): (u128, &str) = match s.below(6) {
        0 | 1 => (g, "generator"),
        2 => (1, "one"),
        3 => (p - 1, "minus_one"),
        4 => {
            let v = gen_int::<S>(s);
            (if v == 0 { 1 } else { v }, "boundary")
        },
        _ => ((s.u128() % (p - 1)) + 1, "random"),
    };
    let max_blowup_log = (max_log.saturating_sub(log_n)).min(5);
    let blowup = 1usize << s.below(max_blowup_log as u64 + 1);
    rec.set_fp(&(&tname, n, blowup, offset, shape, seed, func));
    rec.describe(|| json!({"type": tname, "size": n, "function": fname, "blowup": blowup, "offset": offset.to_string(), "coefficient_shape": shape, "degree": true_degree}));
    let full_limit = if S::BITS > 64 { 128 } else { 256 };

    // which domain points are compared
    let points = |s: &mut Src, domain: usize| -> Vec<usize> {
        if domain <= full_limit {
            (0..domain).collect()
        } else {
            let mut v = vec![0, 1, domain - 1, domain / 2];
            for _ in 0..44 {
                v.push(s.below(domain as u64) as usize);
            }
            v
        }
    };
    let horner = |x: &Elt| -> Elt {
        let mut acc = ctx.zero();
        for c in cref.iter().rev() {
            acc = ctx.add(&ctx.mul(&acc, x), c);
        }
        acc
    };
    let cmp = |what: &str, got: &E, want: &Elt, i: usize| -> CaseResult {
        let g = to_ints::<S, E>(got);
        if &g != want {
            return Err(Fail::new(format!("fft-wrong:{what}"), format!("{tname} {what} size {n} blowup {blowup} offset {offset}: output[{i}] = {} but the polynomial evaluates to {}", show(&g), show(want))));
        }
        Ok(())
    };

    match func {
        0 | 4 => {
            let mut v = cimp.clone();
            let tw = fft::get_twiddles::<S::B>(n);
            let r = catch(|| {
                if func == 0 {
                    fft::evaluate_poly(&mut v, &tw)
                } else {
                    fft::serial_fft(&mut v, &tw)
                }
            });
            if let Err(pn) = r {
                return Err(Fail::new(pn.key(), format!("{fname} panicked on a valid input of size {n}: {}", pn.message)));
            }
            let w = ref_root::<S>(log_n);
            for i in points(s, n) {
                let x = ctx.from_base(powmod(w, i as u128, p));
                cmp(fname, &v[i], &horner(&x), i)?;
            }
        },
        1 => {
            rec.class_if(offset_label != "generator", "offset_not_generator");
            rec.class_if(blowup > 1, "blowup_gt_1");
            let tw = fft::get_twiddles::<S::B>(n);
            let off = S::from_int(offset);
            let out = match catch(|| fft::evaluate_poly_with_offset(&cimp, &tw, off, blowup)) {
                Ok(o) => o,
                Err(pn) => return Err(Fail::new(pn.key(), format!("{fname} panicked on a valid input: {}", pn.message))),
            };
            let domain = n * blowup;
            ensure!(out.len() == domain, "fft-wrong-length", "{fname}: output has {} elements, domain has {domain}", out.len());
            let w = ref_root::<S>(log_n + blowup.trailing_zeros());
            for i in points(s, domain) {
                let x = ctx.from_base(mulmod(offset, powmod(w, i as u128, p), p));
                cmp(fname, &out[i], &horner(&x), i)?;
            }
        },
        2 | 3 => {
            // build evaluations with the reference, interpolate with the implementation; to keep the reference cost
            // linear in the number of compared points the evaluations come from the implementation's own evaluate for
            // large sizes (then this is the inverse property) and from the reference for small ones
            let use_offset = func == 3;
            rec.class_if(use_offset && offset_label != "generator", "offset_not_generator");
            let off_v = if use_offset { offset } else { 1 };
            let w = ref_root::<S>(log_n);
            let mut evals: Vec<E> = if n <= full_limit {
                (0..n).map(|i| from_ints::<S, E>(&horner(&ctx.from_base(mulmod(off_v, powmod(w, i as u128, p), p))))).collect()
            } else {
                let tw = fft::get_twiddles::<S::B>(n);
                if use_offset {
                    fft::evaluate_poly_with_offset(&cimp, &tw, S::from_int(off_v), 1)
                } else {
                    let mut v = cimp.clone();
                    fft::evaluate_poly(&mut v, &tw);
                    v
                }
            };
            let itw = fft::get_inv_twiddles::<S::B>(n);
            let r = catch(|| {
                if use_offset {
                    fft::interpolate_poly_with_offset(&mut evals, &itw, S::from_int(off_v))
                } else {
                    fft::interpolate_poly(&mut evals, &itw)
                }
            });
            if let Err(pn) = r {
                return Err(Fail::new(pn.key(), format!("{fname} panicked on a valid input of size {n}: {}", pn.message)));
            }
            for i in 0..n {
                cmp(fname, &evals[i], &cref[i], i)?;
            }
        },
        5 => {
            // infer_degree over a (possibly larger) shifted domain
            rec.class_if(offset_label != "generator", "offset_not_generator");
            rec.class_if(blowup > 1, "blowup_gt_1");
            let tw = fft::get_twiddles::<S::B>(n);
            let evals = fft::evaluate_poly_with_offset(&cimp, &tw, S::from_int(offset), blowup);
            let got = match catch(|| fft::infer_degree(&evals, S::from_int(offset))) {
                Ok(g) => g,
                Err(pn) => return Err(Fail::new(pn.key(), format!("infer_degree panicked: {}", pn.message))),
            };
            ensure!(got == true_degree, "infer_degree-wrong", "{tname} size {n} blowup {blowup} offset {offset}: infer_degree = {got}, true degree = {true_degree}");
            // and the evaluations themselves at a few points (ties infer_degree to real data)
            let w = ref_root::<S>(log_n + blowup.trailing_zeros());
            for i in [0usize, n * blowup - 1] {
                let x = ctx.from_base(mulmod(offset, powmod(w, i as u128, p), p));
                cmp("evaluate_poly_with_offset", &evals[i], &horner(&x), i)?;
            }
        },
        6 => {
            let tw = fft::get_twiddles::<S::B>(n);
            let itw = fft::get_inv_twiddles::<S::B>(n);
            ensure!(tw.len() == n / 2 && itw.len() == n / 2, "twiddles-length", "twiddle vectors for size {n} have lengths {} and {}", tw.len(), itw.len());
            let w = ref_root::<S>(log_n);
            let winv = invmod(w, p);
            for i in points(s, n / 2) {
                let j = if n / 2 == 1 { 0 } else { ((i as u64).reverse_bits() >> (64 - (log_n - 1))) as usize };
                let want = powmod(w, i as u128, p);
                let want_inv = powmod(winv, i as u128, p);
                ensure!(S::to_int(&tw[j]) == want, "twiddles-wrong", "{}: get_twiddles({n})[{j}] = {} expected w^{i} = {want}", S::NAME, S::to_int(&tw[j]));
                ensure!(S::to_int(&itw[j]) == want_inv, "inv-twiddles-wrong", "{}: get_inv_twiddles({n})[{j}] = {} expected w^-{i} = {want_inv}", S::NAME, S::to_int(&itw[j]));
            }
        },
        _ => {
            // array-of-columns implementation equals column-wise application (N = 3 columns: the
            // polynomial, its double, and a second generated polynomial)
            let mut mix2 = Mix(seed ^ 0x5555);
            let other: Vec<E> = (0..n).map(|_| mix2.elem::<S, E>().0).collect();
            let mut rows: Vec<[E; 3]> = (0..n).map(|i| [cimp[i], cimp[i].double(), other[i]]).collect();
            let tw = fft::get_twiddles::<S::B>(n);
            let r = catch(|| {
                FftInputs::<E>::fft_in_place(&mut rows[..], &tw);
                FftInputs::<E>::permute(&mut rows[..]);
            });
            if let Err(pn) = r {
                return Err(Fail::new(pn.key(), format!("FftInputs for [[E; 3]] panicked: {}", pn.message)));
            }
            let mut c0 = cimp.clone();
            let mut c2 = other.clone();
            fft::serial_fft(&mut c0, &tw);
            fft::serial_fft(&mut c2, &tw);
            for i in 0..n {
                ensure!(rows[i][0] == c0[i] && rows[i][1] == c0[i].double() && rows[i][2] == c2[i], "fft-array-differs-from-columnwise", "{tname} size {n}: row {i} of the array FFT differs from the column-wise FFT");
            }
            let w = ref_root::<S>(log_n);
            for i in points(s, n).into_iter().take(8) {
                let x = ctx.from_base(powmod(w, i as u128, p));
                cmp("fft_inputs_array", &rows[i][0], &horner(&x), i)?;
            }
        },
    }
    rec.weight = n as u64;
    Ok(())
}
