//! C10 — field and extension-field arithmetic is exact modular arithmetic.
//!
//! A case is a small straight-line program over a register file of field elements: leaves are
//! boundary-biased values and elements chosen by their internal representation, instructions are
//! the public arithmetic operations. Every intermediate result is compared with the reference
//! (integer arithmetic mod p, polynomial arithmetic mod the documented irreducible polynomial),
//! and `==` must agree with canonical equality in both directions. Cases run in a worker process
//! under a watchdog because the property also states termination.

use vcore::*;
use vfield::*;
use winter_math::fields::{f128, f62, f64};
use winter_math::{ExtensionOf, FieldElement};

pub fn prop() -> Prop {
    Prop {
        id: "C10",
        level: "exploration",
        rule: "case = straight-line program (2-4 leaves, 1-12 instructions from {+,-,*,neg,double,square,cube,inv,/,exp,conjugate,mul_base,From<u8|u16|u32>,op-assign forms, x-x, field-specific mul_small/exp7/from_mont}) over one of 8 element types (f62,f64 x base/quad/cube; f128 x base/quad); leaves are boundary-biased canonical values or elements chosen by internal representation (f64 Montgomery limb bands via from_mont, f62 non-canonical limbs via operation chains). Every node is checked. Non-trivial = some operand came from a representation band or some node has a non-canonical internal representation; distinct = hash of the decoded program.",
        assumptions: vec![
            "f64::BaseElement::from_mont is only given limbs below the modulus (its documented precondition: 'canonical Montgomery form')",
            "reference arithmetic: u128 (% for f62/f64, BigUint for f128), extension inverse by extended Euclid on polynomials; cross-checked against a second multiplication routine at start-up",
            "termination is checked with a per-case watchdog of 5 s, retried alone at 100 s before it is called a hang",
        ],
        subs: vec![
            Sub::gen("f62_base", f62_base, 128, 200_000, 6_000_000).isolated(2_000, true),
            Sub::gen("f62_quad", f62_quad, 160, 150_000, 5_000_000).isolated(2_000, true),
            Sub::gen("f62_cube", f62_cube, 192, 150_000, 5_000_000).isolated(2_000, true),
            Sub::gen("f64_base", f64_base, 128, 200_000, 6_000_000).isolated(2_000, true),
            Sub::gen("f64_quad", f64_quad, 160, 150_000, 5_000_000).isolated(2_000, true),
            Sub::gen("f64_cube", f64_cube, 192, 150_000, 5_000_000).isolated(2_000, true),
            Sub::gen("f128_base", f128_base, 128, 150_000, 5_000_000).isolated(2_000, true),
            Sub::gen("f128_quad", f128_quad, 160, 100_000, 3_000_000).isolated(2_000, true),
        ],
        required: vec![
            "f62:band_operand", "f64:band_operand", "f62:noncanonical_node", "f62:zero_as_modulus", "f62:inv_of_zero", "f64:inv_of_zero",
            "f128:inv_of_zero", "f64:limb_double_band", "f64:mul_small", "f64:exp7", "op:exp", "op:div", "op:conjugate", "op:mul_base",
        ],
        required_thorough: vec![],
    }
}

macro_rules! entry {
    ($name:ident, $S:ty, $E:ty) => {
        fn $name(s: &mut Src, rec: &mut Rec) -> CaseResult {
            machine::<$S, $E>(s, rec)
        }
    };
}
entry!(f62_base, F62, f62::BaseElement);
entry!(f62_quad, F62, Q<f62::BaseElement>);
entry!(f62_cube, F62, C<f62::BaseElement>);
entry!(f64_base, F64, f64::BaseElement);
entry!(f64_quad, F64, Q<f64::BaseElement>);
entry!(f64_cube, F64, C<f64::BaseElement>);
entry!(f128_base, F128, f128::BaseElement);
entry!(f128_quad, F128, Q<f128::BaseElement>);

struct Node<E> {
    e: E,
    v: Elt,
    how: String,
}

fn check_node<S: Spec, E: FieldElement<BaseField = S::B>>(ctx: &Ctx, n: &Node<E>, idx: usize, rec: &mut Rec) -> CaseResult {
    let got = to_ints::<S, E>(&n.e);
    let tname = format!("{}^{}", S::NAME, E::EXTENSION_DEGREE);
    let opname = n.how.split('(').next().unwrap_or("").to_string();
    if got != n.v {
        return Err(Fail::new(
            format!("wrong-value:{tname}:{opname}"),
            format!("{tname} node #{idx} = {}: value {} but reference arithmetic gives {}", n.how, show(&got), show(&n.v)),
        ));
    }
    // `==` agrees with canonical equality in both directions
    let canon: E = from_ints::<S, E>(&n.v);
    if !(n.e == canon) || !(canon == n.e) {
        return Err(Fail::new(
            format!("eq-false-for-equal-values:{tname}:{opname}"),
            format!(
                "{tname} node #{idx} = {}: canonical value {} but `==` with the freshly constructed element of the same value is false (internal representation {:?})",
                n.how,
                show(&n.v),
                to_bases::<S, E>(&n.e).iter().map(|b| S::raw(b)).collect::<Vec<_>>()
            ),
        ));
    }
    let mut other = n.v.clone();
    other[0] = (other[0] + 1) % ctx.p;
    let different: E = from_ints::<S, E>(&other);
    if n.e == different {
        return Err(Fail::new(format!("eq-true-for-different-values:{tname}:{opname}"), format!("{tname} node #{idx} = {} compares equal to value+1", n.how)));
    }
    if !all_raw_canonical::<S, E>(&n.e) {
        rec.class(&format!("{}:noncanonical_node", S::NAME));
        rec.nontrivial();
        if to_bases::<S, E>(&n.e).iter().any(|b| S::raw(b) == S::P) {
            rec.class(&format!("{}:zero_as_modulus", S::NAME));
        }
    }
    Ok(())
}

fn gen_power<S: Spec>(s: &mut Src) -> u128 {
    let p = S::P;
    let width_mask: u128 = if S::BITS > 64 { u128::MAX } else { u64::MAX as u128 };
    (match s.below(10) {
        0 => 0,
        1 => 1,
        2 => 2,
        3 => p - 2,
        4 => p - 1,
        5 => p,
        6 => 1u128 << s.below(if S::BITS > 64 { 128 } else { 64 }),
        7 => s.below(64) as u128,
        8 => width_mask,
        _ => s.u128(),
    }) & width_mask
}

fn machine<S: Spec, E: FieldElement<BaseField = S::B, PositiveInteger = <S::B as FieldElement>::PositiveInteger> + ExtensionOf<S::B>>(s: &mut Src, rec: &mut Rec) -> CaseResult {
    let ctx = ctx_of::<S, E>();
    let d = E::EXTENSION_DEGREE;
    let mut regs: Vec<Node<E>> = vec![];
    let nleaves = s.range(2, 4);
    for _ in 0..nleaves {
        // leaves: representation-chosen base coefficients with probability ~1/2
        let (e, v, how) = if s.bool() {
            let mut bases = vec![];
            let mut vals = vec![];
            let mut labels = vec![];
            for _ in 0..d {
                match S::repr_leaf(s) {
                    Some((b, v, l)) => {
                        rec.class(&format!("{}:band_operand", S::NAME));
                        rec.class(&format!("{}:{}", S::NAME, l));
                        rec.nontrivial();
                        bases.push(b);
                        vals.push(v);
                        labels.push(l);
                    },
                    None => {
                        let v = gen_int::<S>(s);
                        bases.push(S::from_int(v));
                        vals.push(v);
                        labels.push("value");
                    },
                }
            }
            (from_bases::<S, E>(&bases), vals, format!("leaf[{}]", labels.join(",")))
        } else {
            let (e, v) = gen_elem::<S, E>(s);
            (e, v, "leaf".to_string())
        };
        regs.push(Node { e, v, how: format!("{how}({})", "") });
    }
    let nops = s.range(1, 12);
    let mut program: Vec<String> = regs.iter().map(|n| format!("{} = {}", n.how, show(&n.v))).collect();
    for (i, n) in regs.iter().enumerate() {
        if let Err(f) = check_node::<S, E>(&ctx, n, i, rec) {
            rec.redescribe(|| json!({"type": format!("{}^{}", S::NAME, d), "program": program}));
            return Err(f);
        }
    }
    for _ in 0..nops {
        let n = regs.len() as u64;
        // operands biased towards recent registers
        let ia = if s.bool() { n - 1 } else { s.below(n) } as usize;
        let ib = s.below(n) as usize;
        let (a, av) = (regs[ia].e, regs[ia].v.clone());
        let (b, bv) = (regs[ib].e, regs[ib].v.clone());
        let op = s.weighted(&[10, 10, 12, 5, 6, 6, 4, 8, 6, 6, 4, 5, 3, 6, 6, 5]);
        let (e, v, how): (E, Elt, String) = match op {
            0 => (a + b, ctx.add(&av, &bv), format!("add(r{ia}, r{ib})")),
            1 => (a - b, ctx.sub(&av, &bv), format!("sub(r{ia}, r{ib})")),
            2 => (a * b, ctx.mul(&av, &bv), format!("mul(r{ia}, r{ib})")),
            3 => (-a, ctx.neg(&av), format!("neg(r{ia})")),
            4 => (a.double(), ctx.add(&av, &av), format!("double(r{ia})")),
            5 => (a.square(), ctx.mul(&av, &av), format!("square(r{ia})")),
            6 => (a.cube(), ctx.mul(&ctx.mul(&av, &av), &av), format!("cube(r{ia})")),
            7 => {
                if ctx.is_zero(&av) {
                    rec.class(&format!("{}:inv_of_zero", S::NAME));
                }
                (a.inv(), ctx.inv(&av), format!("inv(r{ia})"))
            },
            8 => {
                rec.class("op:div");
                if ctx.is_zero(&bv) {
                    rec.class(&format!("{}:inv_of_zero", S::NAME));
                }
                (a / b, ctx.div(&av, &bv), format!("div(r{ia}, r{ib})"))
            },
            9 => {
                rec.class("op:exp");
                let pw = gen_power::<S>(s);
                let r = if s.bool() { a.exp(S::pint(pw)) } else { a.exp_vartime(S::pint(pw)) };
                (r, ctx.pow(&av, pw), format!("exp(r{ia}, {pw})"))
            },
            10 => {
                rec.class("op:conjugate");
                let r = a.conjugate();
                let v = if d == 1 { av.clone() } else { ctx.frobenius(&av) };
                (r, v, format!("conjugate(r{ia})"))
            },
            11 => {
                rec.class("op:mul_base");
                // multiply by a base-field element (first coefficient of r_ib, or a representation leaf)
                let (bb, bbv) = match S::repr_leaf(s) {
                    Some((x, v, _)) if s.bool() => (x, v),
                    _ => (to_bases::<S, E>(&b)[0], bv[0]),
                };
                (a.mul_base(bb), ctx.mul_base(&av, bbv), format!("mul_base(r{ia}, {bbv})"))
            },
            12 => {
                let k = s.u64_biased();
                match s.below(3) {
                    0 => (E::from(k as u8), ctx.from_base((k as u8) as u128), format!("from_u8({})", k as u8)),
                    1 => (E::from(k as u16), ctx.from_base((k as u16) as u128), format!("from_u16({})", k as u16)),
                    _ => (E::from(k as u32), ctx.from_base((k as u32) as u128), format!("from_u32({})", k as u32)),
                }
            },
            13 => {
                // compound-assignment forms
                let mut x = a;
                match s.below(4) {
                    0 => {
                        x += b;
                        (x, ctx.add(&av, &bv), format!("add_assign(r{ia}, r{ib})"))
                    },
                    1 => {
                        x -= b;
                        (x, ctx.sub(&av, &bv), format!("sub_assign(r{ia}, r{ib})"))
                    },
                    2 => {
                        x *= b;
                        (x, ctx.mul(&av, &bv), format!("mul_assign(r{ia}, r{ib})"))
                    },
                    _ => {
                        x /= b;
                        (x, ctx.div(&av, &bv), format!("div_assign(r{ia}, r{ib})"))
                    },
                }
            },
            14 => {
                // representations of zero: x - x, x + (-x)
                if s.bool() {
                    (a - a, ctx.zero(), format!("sub(r{ia}, r{ia})"))
                } else {
                    (a + (-a), ctx.zero(), format!("add(r{ia}, neg(r{ia}))"))
                }
            },
            _ => {
                // operations that exist only on the concrete base type (f64: mul_small, exp7, from_mont)
                if d == 1 {
                    let x = to_bases::<S, E>(&a)[0];
                    match S::special_op(s, &x, av[0]) {
                        Some((r, v, label)) => {
                            rec.class(&format!("{}:{}", S::NAME, label));
                            (from_bases::<S, E>(&[r]), vec![v], format!("{label}(r{ia})"))
                        },
                        None => (a + b, ctx.add(&av, &bv), format!("add(r{ia}, r{ib})")),
                    }
                } else {
                    // embedding of a base element and multiplication by it
                    let x = to_bases::<S, E>(&b)[0];
                    (a * E::from(x), ctx.mul(&av, &ctx.from_base(bv[0])), format!("mul(r{ia}, from_base(r{ib}[0]))"))
                }
            },
        };
        let idx = regs.len();
        program.push(format!("r{idx} = {how} = {}", show(&v)));
        let node = Node { e, v, how };
        if let Err(f) = check_node::<S, E>(&ctx, &node, idx, rec) {
            rec.redescribe(|| json!({"type": format!("{}^{}", S::NAME, d), "program": program}));
            return Err(f);
        }
        regs.push(node);
    }
    rec.weight = regs.len() as u64;
    rec.set_fp(&(S::NAME, d, &program));
    rec.describe(|| json!({"type": format!("{}^{}", S::NAME, d), "program": program}));
    Ok(())
}
