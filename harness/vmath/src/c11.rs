//! C11 — field constants and canonical encodings.
//!
//! Exhaustive part: every documented constant of each field is re-derived with the reference
//! integer arithmetic (primality with a Pratt-style certificate, two-adicity, generator order,
//! every root-of-unity order 1..=TWO_ADICITY, irreducibility of the extension polynomials).
//! Generated part: integers and byte strings at and around the modulus / type boundaries are fed
//! to every decoder; values below the modulus must decode to themselves, values at or above it
//! must be rejected by every decoder; encoders must produce the canonical little-endian integer;
//! the Frobenius maps must equal the p-th power.

use vcore::*;
use vfield::*;
use vref::field::*;
use vref::poly;
use winter_math::fields::{f128, f62, f64};
use winter_math::{ExtensibleField, FieldElement, StarkField};
use winter_utils::{ByteReader, Deserializable, Randomizable, Serializable, SliceReader};

pub fn prop() -> Prop {
    Prop {
        id: "C11",
        level: "exploration",
        rule: "exhaustive sub-checks enumerate all constants of f62, f64, f128 (all root-of-unity orders 1..=TWO_ADICITY, all prime factors of p-1); generated cases are integers v in {0,1,p-1,p,p+1,2p-1,2p,2^k-1,2^k,type max} +- delta and uniform, fed to every decoder/encoder of every field and extension, and extension elements for the Frobenius identity. Non-trivial = v within 2^16 of p, 2p or a type boundary (decoders) / element with at least two non-zero coefficients (Frobenius); distinct = hash of (field, decoder family, v).",
        assumptions: vec![
            "the prime factorisations of p-1 are embedded constants (computed once offline with sympy) that are re-verified at run time: product equals p-1 and every factor passes Miller-Rabin with 40 bases",
            "Miller-Rabin with the first 40 primes as bases is treated as a primality proof for the three documented moduli together with the Pratt-style generator certificate (g^((p-1)/q) != 1 for every prime q | p-1 and g^(p-1) = 1 proves p prime given the factorisation)",
            "bytes_as_elements (unsafe, documented as not validating) is not a decoder in the sense of the property and is not fed out-of-range values",
        ],
        subs: vec![
            Sub::exhaustive("constants_f62", constants::<F62>),
            Sub::exhaustive("constants_f64", constants::<F64>),
            Sub::exhaustive("constants_f128", constants::<F128>),
            Sub::gen("decoders_f62", decoders_f62, 32, 300_000, 6_000_000),
            Sub::gen("decoders_f64", decoders_f64, 32, 300_000, 6_000_000),
            Sub::gen("decoders_f128", decoders_f128, 32, 300_000, 6_000_000),
            Sub::gen("frobenius", frobenius, 48, 100_000, 2_000_000),
        ],
        required: vec!["near_modulus", "rejected_at_or_above_modulus", "accepted_below_modulus", "wrong_length", "ext_coefficient_out_of_range"],
        required_thorough: vec![],
    }
}

fn factors_of_p_minus_1<S: Spec>() -> Vec<(u128, u32)> {
    match S::NAME {
        "f62" => vec![(2, 39), (13, 1), (17, 1), (37957, 1)],
        "f64" => vec![(2, 32), (3, 1), (5, 1), (17, 1), (257, 1), (65537, 1)],
        _ => vec![(2, 40), (29, 1), (181, 1), (286619, 1), (11394379, 1), (18053749339, 1)],
    }
}

fn constants<S: Spec>(ex: &mut Ex) {
    let p = S::P;
    let name = S::NAME;
    let fail = |ex: &mut Ex, key: &str, msg: String| ex.fail(&format!("{name}:{key}"), msg, json!({"field": name, "constant": key}));
    // modulus as the implementation states it
    let le = <S::B as StarkField>::get_modulus_le_bytes();
    let mut buf = [0u8; 16];
    if le.len() > 16 || le.len() != <S::B as FieldElement>::ELEMENT_BYTES {
        fail(ex, "modulus-bytes-length", format!("get_modulus_le_bytes has {} bytes, ELEMENT_BYTES = {}", le.len(), <S::B as FieldElement>::ELEMENT_BYTES));
        return;
    }
    buf[..le.len()].copy_from_slice(&le);
    let m = u128::from_le_bytes(buf);
    ex.case(1, true);
    if m != p {
        fail(ex, "modulus-bytes", format!("get_modulus_le_bytes = {m}, documented modulus {p}"));
    }
    ex.case(2, true);
    if <S::B as StarkField>::MODULUS != S::pint(p) {
        fail(ex, "MODULUS", format!("MODULUS constant differs from the documented modulus {p}"));
    }
    ex.case(3, true);
    if <S::B as StarkField>::MODULUS_BITS != 128 - p.leading_zeros() {
        fail(ex, "MODULUS_BITS", format!("MODULUS_BITS = {} but the modulus has {} bits", <S::B as StarkField>::MODULUS_BITS, 128 - p.leading_zeros()));
    }
    ex.case(4, true);
    if <S::B as FieldElement>::ELEMENT_BYTES != (S::BITS as usize).div_ceil(8).next_power_of_two() {
        fail(ex, "ELEMENT_BYTES", format!("ELEMENT_BYTES = {}", <S::B as FieldElement>::ELEMENT_BYTES));
    }
    // primality + factorisation certificate
    let fs = factors_of_p_minus_1::<S>();
    let mut prod: u128 = 1;
    for (q, e) in &fs {
        ex.case(100 + *q as u64, true);
        if !is_probable_prime(*q) {
            fail(ex, "factorisation", format!("embedded factor {q} of p-1 is not prime (harness constant wrong)"));
        }
        for _ in 0..*e {
            prod = prod.checked_mul(*q).unwrap_or(0);
        }
    }
    ex.case(5, true);
    if prod != p - 1 {
        fail(ex, "factorisation", format!("embedded factorisation multiplies to {prod}, p-1 = {}", p - 1));
    }
    ex.case(6, true);
    if !is_probable_prime(p) {
        fail(ex, "modulus-not-prime", format!("{p} fails Miller-Rabin"));
    }
    // two-adicity
    let two_adicity = (p - 1).trailing_zeros();
    ex.case(7, true);
    if <S::B as StarkField>::TWO_ADICITY != two_adicity {
        fail(ex, "TWO_ADICITY", format!("TWO_ADICITY = {}, v2(p-1) = {two_adicity}", <S::B as StarkField>::TWO_ADICITY));
    }
    // generator generates the multiplicative group
    let g = S::to_int(&<S::B as StarkField>::GENERATOR);
    ex.case(8, true);
    if powmod(g, p - 1, p) != 1 {
        fail(ex, "GENERATOR", format!("g^(p-1) != 1 for g = {g}"));
    }
    for (q, _) in &fs {
        ex.case(200 + *q as u64, true);
        if powmod(g, (p - 1) / q, p) == 1 {
            fail(ex, "GENERATOR", format!("g = {g} has g^((p-1)/{q}) = 1: not a generator"));
        }
    }
    // two-adic root of unity: exact order 2^TWO_ADICITY. The rustdoc additionally says it is
    // "computed as GENERATOR^k"; the property does not state that (f64 uses a different primitive
    // 2^32-th root), so that equality is recorded as a class, not asserted.
    let k = (p - 1) >> two_adicity;
    let w = S::to_int(&<S::B as StarkField>::TWO_ADIC_ROOT_OF_UNITY);
    ex.case(9, true);
    if w == powmod(g, k, p) {
        ex.class("two_adic_root_equals_generator_pow_k", 1);
    } else {
        ex.class("two_adic_root_is_another_primitive_root", 1);
    }
    if powmod(w, 1u128 << two_adicity, p) != 1 || powmod(w, 1u128 << (two_adicity - 1), p) != p - 1 {
        fail(ex, "TWO_ADIC_ROOT_OF_UNITY", format!("TWO_ADIC_ROOT_OF_UNITY = {w} does not have order 2^{two_adicity}"));
    }
    // every order
    let max_n = <S::B as StarkField>::TWO_ADICITY.min(two_adicity);
    for n in 1..=max_n {
        ex.case(1000 + n as u64, true);
        match catch(|| <S::B as StarkField>::get_root_of_unity(n)) {
            Err(pn) => fail(ex, "get_root_of_unity-panic", format!("get_root_of_unity({n}) panicked: {}", pn.message)),
            Ok(r) => {
                let r = S::to_int(&r);
                let full = powmod(r, 1u128 << n, p);
                let half = powmod(r, 1u128 << (n - 1), p);
                if full != 1 || half != p - 1 {
                    fail(ex, "get_root_of_unity-order", format!("get_root_of_unity({n}) = {r}: r^(2^{n}) = {full}, r^(2^{}) = {half} (expected 1 and p-1)", n - 1));
                }
                // consistency with the documented definition: TWO_ADIC_ROOT^(2^(adicity-n))
                let want = powmod(w, 1u128 << (two_adicity - n), p);
                if r != want {
                    fail(ex, "get_root_of_unity-value", format!("get_root_of_unity({n}) = {r}, TWO_ADIC_ROOT_OF_UNITY^(2^{}) = {want}", two_adicity - n));
                }
            },
        }
    }
    ex.class("root_orders", max_n as u64);
    // documented panics of get_root_of_unity: n = 0 and n > TWO_ADICITY
    for n in [0, two_adicity + 1] {
        ex.case(2000 + n as u64, true);
        if catch(|| <S::B as StarkField>::get_root_of_unity(n)).is_ok() {
            fail(ex, "get_root_of_unity-accepts-invalid-order", format!("get_root_of_unity({n}) returned although the order does not exist"));
        }
    }
    // quadratic polynomial x^2 + b x + c irreducible <=> discriminant is a non-residue
    {
        let c = ctx_for::<S>(2);
        let (c0, b1) = (c.m[0], c.m[1]);
        let disc = submod(mulmod(b1, b1, p), mulmod(4, c0, p), p);
        ex.case(10, true);
        if powmod(disc, (p - 1) / 2, p) != p - 1 {
            fail(ex, "quadratic-polynomial-reducible", format!("documented quadratic polynomial has a square discriminant {disc}"));
        }
        // the implementation really multiplies modulo that polynomial: phi^2 = -b phi - c
        let phi: [S::B; 2] = [S::from_int(0), S::from_int(1)];
        let sq = <S::B as ExtensibleField<2>>::mul(phi, phi);
        let want = c.mul(&vec![0, 1], &vec![0, 1]);
        ex.case(11, true);
        if vec![S::to_int(&sq[0]), S::to_int(&sq[1])] != want {
            fail(ex, "quadratic-polynomial-mismatch", format!("phi^2 = ({}, {}) but the documented polynomial gives {:?}", S::to_int(&sq[0]), S::to_int(&sq[1]), want));
        }
    }
    // cubic polynomial irreducible <=> gcd(x^p - x, f) = 1 (a cubic without roots is irreducible)
    if S::CUBE.is_some() {
        let c = ctx_for::<S>(3);
        let xp = c.pow(&vec![0, 1, 0], p);
        let h = poly::trim(c.sub(&xp, &vec![0, 1, 0]));
        let mut f: Vec<u128> = c.m.clone();
        f.push(1);
        // Euclid
        let (mut a, mut b) = (f, h);
        while !(b.len() == 1 && b[0] == 0) {
            let (_, r) = poly::divrem_p(&a, &b, p);
            a = b;
            b = r;
        }
        ex.case(12, true);
        if a.len() != 1 {
            fail(ex, "cubic-polynomial-reducible", format!("gcd(x^p - x, f) has degree {}", a.len() - 1));
        }
        let phi: [S::B; 3] = [S::from_int(0), S::from_int(1), S::from_int(0)];
        let phi2 = <S::B as ExtensibleField<3>>::mul(phi, phi);
        let phi3 = <S::B as ExtensibleField<3>>::mul(phi2, phi);
        let want = c.pow(&vec![0, 1, 0], 3);
        ex.case(13, true);
        if phi3.iter().map(|b| S::to_int(b)).collect::<Vec<_>>() != want {
            fail(ex, "cubic-polynomial-mismatch", format!("phi^3 differs from the documented polynomial: {:?}", want));
        }
        ex.case(14, true);
        if !<S::B as ExtensibleField<3>>::is_supported() {
            fail(ex, "cubic-is_supported", "cubic extension documented as supported but is_supported() is false".into());
        }
    } else {
        ex.case(14, true);
        if <S::B as ExtensibleField<3>>::is_supported() {
            fail(ex, "cubic-is_supported", "cubic extension documented as unsupported but is_supported() is true".into());
        }
    }
    ex.case(15, true);
    if !<S::B as ExtensibleField<2>>::is_supported() {
        fail(ex, "quadratic-is_supported", "quadratic extension is_supported() is false".into());
    }
    // ZERO / ONE
    ex.case(16, true);
    if S::to_int(&<S::B as FieldElement>::ZERO) != 0 || S::to_int(&<S::B as FieldElement>::ONE) != 1 {
        fail(ex, "ZERO-ONE", "ZERO / ONE constants are wrong".into());
    }
    ex.space(json!({"field": name, "root_orders": max_n, "prime_factors_of_p_minus_1": fs.len()}));
    ex.sample(json!({"field": name, "modulus": p.to_string(), "generator": g.to_string(), "two_adic_root": w.to_string(), "two_adicity": two_adicity}));
}

// DECODERS / ENCODERS
// ================================================================================================

/// integer around the modulus / type boundaries (may be >= p), up to `max`
fn gen_candidate(s: &mut Src, p: u128, max: u128, rec: &mut Rec) -> u128 {
    let d = s.below(1 << 16) as u128;
    let dd = s.below(4) as u128;
    let v = match s.below(16) {
        0 => dd,
        1 => p - 1 - dd,
        2 => p + dd,
        3 => p.wrapping_mul(2).wrapping_sub(1 + dd),
        4 => p.wrapping_mul(2).wrapping_add(dd),
        5 => max - dd,
        6 => {
            let k = s.below(128) as u32;
            (1u128 << k).wrapping_add(dd).wrapping_sub(2)
        },
        7 => p - 1 - d,
        8 => p + d,
        9 => (u64::MAX as u128).wrapping_add(dd).wrapping_sub(1),
        10 => (u64::MAX as u128) - d,
        11 => p.wrapping_mul(2).wrapping_add(d),
        _ => s.u128(),
    };
    let v = if max == u128::MAX { v } else { v % (max + 1) };
    let near = |a: u128, b: u128| a.abs_diff(b) <= 1 << 16;
    if near(v, p) || near(v, p.wrapping_mul(2)) || near(v, max) || near(v, u64::MAX as u128) {
        rec.nontrivial();
        rec.class("near_modulus");
    }
    v
}

fn le_bytes(v: u128, n: usize) -> Vec<u8> {
    v.to_le_bytes()[..n].to_vec()
}

/// checks shared by all fields, through the trait-level decoders and encoders
fn generic_codec<S: Spec>(v: u128, s: &mut Src, rec: &mut Rec) -> CaseResult {
    let p = S::P;
    let nb = <S::B as FieldElement>::ELEMENT_BYTES;
    let fits = nb == 16 || v < (1u128 << (8 * nb));
    let valid = v < p;
    let name = S::NAME;
    rec.class(if valid { "accepted_below_modulus" } else { "rejected_at_or_above_modulus" });
    macro_rules! verdict {
        ($what:expr, $res:expr) => {{
            let r: Option<S::B> = $res;
            match (valid, r) {
                (true, Some(e)) => ensure!(S::to_int(&e) == v, format!("{name}:decoder-wrong-value:{}", $what), "{name} {}: {v} decoded to {}", $what, S::to_int(&e)),
                (true, None) => return Err(Fail::new(format!("{name}:decoder-rejects-valid:{}", $what), format!("{name} {}: canonical value {v} < p rejected", $what))),
                (false, Some(e)) => {
                    return Err(Fail::new(format!("{name}:decoder-accepts-out-of-range:{}", $what), format!("{name} {}: {v} >= p accepted as {}", $what, S::to_int(&e))))
                },
                (false, None) => {},
            }
        }};
    }
    if v <= u64::MAX as u128 {
        verdict!("TryFrom<u64>", <S::B as TryFrom<u64>>::try_from(v as u64).ok());
    }
    verdict!("TryFrom<u128>", <S::B as TryFrom<u128>>::try_from(v).ok());
    if fits {
        let bytes = le_bytes(v, nb);
        verdict!("TryFrom<&[u8]>", <S::B as TryFrom<&[u8]>>::try_from(&bytes[..]).ok());
        verdict!("read_from", <S::B as Deserializable>::read_from(&mut SliceReader::new(&bytes)).ok());
        verdict!("read_from_bytes", <S::B as Deserializable>::read_from_bytes(&bytes).ok());
        verdict!("from_random_bytes", <S::B as Randomizable>::from_random_bytes(&bytes));
        {
            // read_many of [valid 1, v]: rejected as a whole iff v is out of range
            let mut two = le_bytes(1, nb);
            two.extend_from_slice(&bytes);
            let r = SliceReader::new(&two).read_many::<S::B>(2).ok().map(|x| x[1]);
            verdict!("read_many", r);
        }
        // wrong lengths are always rejected by the slice decoders
        let mut longer = bytes.clone();
        longer.push(0);
        let shorter = &bytes[..nb - 1];
        rec.class("wrong_length");
        ensure!(<S::B as TryFrom<&[u8]>>::try_from(&longer[..]).is_err(), format!("{name}:slice-decoder-accepts-wrong-length"), "{name}: {}-byte slice accepted", nb + 1);
        ensure!(<S::B as TryFrom<&[u8]>>::try_from(shorter).is_err(), format!("{name}:slice-decoder-accepts-wrong-length"), "{name}: {}-byte slice accepted", nb - 1);
        ensure!(<S::B as Deserializable>::read_from_bytes(shorter).is_err(), format!("{name}:read_from-accepts-truncated"), "{name}: truncated element decoded");
        // from_bytes_with_padding: documented to panic for >= ELEMENT_BYTES bytes; shorter inputs are zero-padded
        let k = s.below(nb as u64) as usize;
        let small = &bytes[..k];
        let want = u128::from_le_bytes({
            let mut b = [0u8; 16];
            b[..k].copy_from_slice(small);
            b
        });
        match catch(|| <S::B as StarkField>::from_bytes_with_padding(small)) {
            Ok(e) => ensure!(want < p && S::to_int(&e) == want, format!("{name}:from_bytes_with_padding"), "{name}: from_bytes_with_padding({k} bytes) = {} expected {want}", S::to_int(&e)),
            Err(_) => ensure!(want >= p, format!("{name}:from_bytes_with_padding-panics-on-valid"), "{name}: from_bytes_with_padding panicked on value {want} < p"),
        }
        ensure!(catch(|| <S::B as StarkField>::from_bytes_with_padding(&bytes)).is_err(), format!("{name}:from_bytes_with_padding-accepts-full-length"), "{name}: from_bytes_with_padding accepted ELEMENT_BYTES bytes (documented panic)");
        // extensions: one out-of-range coefficient rejects the whole element
        let mut q = le_bytes(s.below(1000) as u128, nb);
        let pos = s.below(2);
        if pos == 0 {
            q.splice(0..0, bytes.clone());
        } else {
            q.extend_from_slice(&bytes);
        }
        let rq = <Q<S::B> as Deserializable>::read_from_bytes(&q).ok();
        let rq2 = <Q<S::B> as TryFrom<&[u8]>>::try_from(&q[..]).ok();
        let rq3 = <Q<S::B> as Randomizable>::from_random_bytes(&q);
        if !valid {
            rec.class("ext_coefficient_out_of_range");
        }
        for (what, r) in [("read_from", rq), ("TryFrom<&[u8]>", rq2), ("from_random_bytes", rq3)] {
            match (valid, r) {
                (true, Some(e)) => {
                    let ints = to_ints::<S, Q<S::B>>(&e);
                    ensure!(ints[pos as usize] == v, format!("{name}:quad-decoder-wrong-value:{what}"), "{name} quad {what}: coefficient {v} decoded as {}", ints[pos as usize]);
                    ensure!(e.to_bytes() == q, format!("{name}:quad-encoder"), "{name} quad: re-encoding differs");
                },
                (true, None) => return Err(Fail::new(format!("{name}:quad-decoder-rejects-valid:{what}"), format!("{name} quad {what}: valid coefficients rejected"))),
                (false, Some(_)) => return Err(Fail::new(format!("{name}:quad-decoder-accepts-out-of-range:{what}"), format!("{name} quad {what}: coefficient {v} >= p accepted"))),
                (false, None) => {},
            }
        }
        if S::CUBE.is_some() {
            let mut c3 = le_bytes(3, nb);
            c3.extend_from_slice(&le_bytes(5, nb));
            let pos3 = s.below(3) as usize;
            c3.splice(pos3 * nb..pos3 * nb, bytes.clone());
            let r = <C<S::B> as Deserializable>::read_from_bytes(&c3).ok();
            let r2 = <C<S::B> as TryFrom<&[u8]>>::try_from(&c3[..]).ok();
            for (what, r) in [("read_from", r), ("TryFrom<&[u8]>", r2)] {
                match (valid, r) {
                    (true, Some(e)) => {
                        let ints = to_ints::<S, C<S::B>>(&e);
                        ensure!(ints[pos3] == v && e.to_bytes() == c3, format!("{name}:cube-codec:{what}"), "{name} cube {what}: coefficient {v} decoded as {}", ints[pos3]);
                    },
                    (true, None) => return Err(Fail::new(format!("{name}:cube-decoder-rejects-valid:{what}"), format!("{name} cube {what}: valid coefficients rejected"))),
                    (false, Some(_)) => return Err(Fail::new(format!("{name}:cube-decoder-accepts-out-of-range:{what}"), format!("{name} cube {what}: coefficient {v} >= p accepted"))),
                    (false, None) => {},
                }
            }
        }
        // embedding decoders of the extensions
        if v <= u64::MAX as u128 {
            let r = <Q<S::B> as TryFrom<u64>>::try_from(v as u64).ok();
            ensure!(r.is_some() == valid, format!("{name}:quad-TryFrom<u64>"), "{name} quad TryFrom<u64>({v}) accepted={}", r.is_some());
            if let Some(e) = r {
                ensure!(to_ints::<S, Q<S::B>>(&e) == vec![v, 0], format!("{name}:quad-TryFrom<u64>-value"), "wrong embedding");
            }
        }
        let r = <Q<S::B> as TryFrom<u128>>::try_from(v).ok();
        ensure!(r.is_some() == valid, format!("{name}:quad-TryFrom<u128>"), "{name} quad TryFrom<u128>({v}) accepted={}", r.is_some());
    }
    // encoders
    if valid {
        let e = S::from_int(v);
        let bytes = e.to_bytes();
        ensure!(bytes == le_bytes(v, nb), format!("{name}:encoder-not-canonical-le"), "{name}: to_bytes({v}) = {bytes:?}");
        let mut w = vec![];
        e.write_into(&mut w);
        ensure!(w == bytes, format!("{name}:write_into-differs-from-to_bytes"), "{name}: write_into differs from to_bytes");
        ensure!(S::to_int(&e) == v, format!("{name}:as_int"), "{name}: as_int({v}) = {}", S::to_int(&e));
        // an element produced by arithmetic (possibly non-canonical representation) encodes canonically too
        let w2 = gen_int::<S>(s);
        let sum = e + S::from_int(w2);
        let sv = addmod(v, w2, p);
        ensure!(sum.to_bytes() == le_bytes(sv, nb), format!("{name}:encoder-depends-on-representation"), "{name}: ({v} + {w2}).to_bytes() is not LE({sv})");
        let neg = -e + e;
        ensure!(neg.to_bytes() == le_bytes(0, nb), format!("{name}:encoder-depends-on-representation"), "{name}: (-x + x).to_bytes() is not zero for x = {v}");
    }
    Ok(())
}

macro_rules! u64_field_decoders {
    ($fname:ident, $S:ty, $m:ident) => {
        fn $fname(s: &mut Src, rec: &mut Rec) -> CaseResult {
            type B = $m::BaseElement;
            let p = <$S>::P;
            let v = gen_candidate(s, p, u128::MAX, rec);
            rec.set_fp(&(<$S>::NAME, v));
            rec.describe(|| json!({"field": <$S>::NAME, "candidate": v.to_string(), "valid": v < p}));
            generic_codec::<$S>(v, s, rec)?;
            // concrete-type conversions
            if v <= u64::MAX as u128 {
                let r = <B as TryFrom<[u8; 8]>>::try_from((v as u64).to_le_bytes()).ok();
                ensure!(r.is_some() == (v < p), concat!(stringify!($m), ":TryFrom<[u8;8]>"), "TryFrom<[u8;8]>({v}) accepted = {}", r.is_some());
                if let Some(e) = r {
                    ensure!(e.as_int() as u128 == v, concat!(stringify!($m), ":TryFrom<[u8;8]>-value"), "wrong value");
                }
            }
            if v < p {
                let e = B::new(v as u64);
                ensure!(u64::from(e) as u128 == v && u128::from(e) == v, concat!(stringify!($m), ":Into<u64|u128>"), "Into<u64/u128>({v}) wrong");
            } else if v <= u64::MAX as u128 {
                // `new` documents silent reduction
                let e = B::new(v as u64);
                ensure!(e.as_int() as u128 == v % p, concat!(stringify!($m), ":new-reduction"), "new({v}).as_int() = {} expected {}", e.as_int(), v % p);
            }
            Ok(())
        }
    };
}
u64_field_decoders!(decoders_f62, F62, f62);

fn decoders_f64(s: &mut Src, rec: &mut Rec) -> CaseResult {
    type B = f64::BaseElement;
    let p = P64;
    let v = gen_candidate(s, p, u128::MAX, rec);
    rec.set_fp(&("f64", v));
    rec.describe(|| json!({"field": "f64", "candidate": v.to_string(), "valid": v < p}));
    generic_codec::<F64>(v, s, rec)?;
    if v <= u64::MAX as u128 {
        let r = <B as TryFrom<[u8; 8]>>::try_from((v as u64).to_le_bytes()).ok();
        ensure!(r.is_some() == (v < p), "f64:TryFrom<[u8;8]>", "TryFrom<[u8;8]>({v}) accepted = {}", r.is_some());
        let r = <B as TryFrom<usize>>::try_from(v as usize).ok();
        ensure!(r.is_some() == (v < p), "f64:TryFrom<usize>", "TryFrom<usize>({v}) accepted = {}", r.is_some());
        let e = B::new(v as u64);
        ensure!(e.as_int() as u128 == v % p, "f64:new-reduction", "new({v}).as_int() = {} expected {}", e.as_int(), v % p);
        // from_mont(inner) is the identity on values
        ensure!(B::from_mont(e.inner()) == e, "f64:from_mont-inner", "from_mont(inner(x)) != x");
    }
    if v < p {
        let e = B::new(v as u64);
        ensure!(u64::from(e) as u128 == v && u128::from(e) == v, "f64:Into<u64|u128>", "Into<u64/u128>({v}) wrong");
        ensure!(u8::try_from(e).ok() == u8::try_from(v).ok(), "f64:TryFrom<BaseElement>-for-u8", "u8::try_from({v})");
        ensure!(u16::try_from(e).ok() == u16::try_from(v).ok(), "f64:TryFrom<BaseElement>-for-u16", "u16::try_from({v})");
        ensure!(u32::try_from(e).ok() == u32::try_from(v).ok(), "f64:TryFrom<BaseElement>-for-u32", "u32::try_from({v})");
        let want_bool = match v {
            0 => Some(false),
            1 => Some(true),
            _ => None,
        };
        ensure!(bool::try_from(e).ok() == want_bool, "f64:TryFrom<BaseElement>-for-bool", "bool::try_from({v})");
        ensure!(B::from(v == 1) == B::new((v == 1) as u64), "f64:From<bool>", "From<bool>");
    }
    Ok(())
}

fn decoders_f128(s: &mut Src, rec: &mut Rec) -> CaseResult {
    type B = f128::BaseElement;
    let p = P128;
    let v = gen_candidate(s, p, u128::MAX, rec);
    rec.set_fp(&("f128", v));
    rec.describe(|| json!({"field": "f128", "candidate": v.to_string(), "valid": v < p}));
    generic_codec::<F128>(v, s, rec)?;
    let e = B::new(v);
    ensure!(e.as_int() == v % p, "f128:new-reduction", "new({v}).as_int() = {} expected {}", e.as_int(), v % p);
    if v <= u64::MAX as u128 {
        ensure!(B::from(v as u64).as_int() == v, "f128:From<u64>", "From<u64>({v})");
    }
    Ok(())
}

// FROBENIUS
// ================================================================================================

fn frobenius(s: &mut Src, rec: &mut Rec) -> CaseResult {
    let which = s.below(5);
    macro_rules! run {
        ($S:ty, $N:expr) => {{
            let ctx = ctx_for::<$S>($N);
            let mut bases = vec![];
            let mut vals = vec![];
            for _ in 0..$N {
                let (b, v) = match <$S>::repr_leaf(s) {
                    Some((b, v, _)) if s.bool() => (b, v),
                    _ => {
                        let v = gen_int::<$S>(s);
                        (<$S>::from_int(v), v)
                    },
                };
                bases.push(b);
                vals.push(v);
            }
            if vals.iter().filter(|v| **v != 0).count() >= 2 {
                rec.nontrivial();
            }
            rec.set_fp(&(<$S>::NAME, $N, &vals));
            rec.describe(|| json!({"field": <$S>::NAME, "degree": $N, "element": show(&vals)}));
            let arr: [<$S as Spec>::B; $N] = core::array::from_fn(|i| bases[i]);
            let got = <<$S as Spec>::B as ExtensibleField<$N>>::frobenius(arr);
            let got: Vec<u128> = got.iter().map(|b| <$S>::to_int(b)).collect();
            let want = ctx.pow(&vals, <$S>::P);
            ensure!(got == want, format!("{}:frobenius-{}", <$S>::NAME, $N), "{} degree {}: frobenius({}) = {} but x^p = {}", <$S>::NAME, $N, show(&vals), show(&got), show(&want));
            // applying it N times is the identity
            let mut x = arr;
            for _ in 0..$N {
                x = <<$S as Spec>::B as ExtensibleField<$N>>::frobenius(x);
            }
            let back: Vec<u128> = x.iter().map(|b| <$S>::to_int(b)).collect();
            ensure!(back == vals, format!("{}:frobenius-order-{}", <$S>::NAME, $N), "frobenius^{} is not the identity", $N);
            Ok(())
        }};
    }
    match which {
        0 => run!(F62, 2),
        1 => run!(F62, 3),
        2 => run!(F64, 2),
        3 => run!(F64, 3),
        _ => run!(F128, 2),
    }
}
