//! C10–C14: field arithmetic, constants/encodings, FFT, polynomial helpers, batch utilities.

use vcore::*;

pub mod c10;
pub mod c11;
pub mod c12;
pub mod c13;
pub mod c14;

pub fn props() -> Vec<Prop> {
    vref::field::startup_selfcheck();
    vec![c10::prop(), c11::prop(), c12::prop(), c13::prop(), c14::prop()]
}
