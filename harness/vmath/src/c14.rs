//! C14 — batch field utilities agree with element-wise definitions.
//!
//! (The thread-count clause is decided by the `vdet` differential build, see C06.)

use vcore::*;
use vfield::*;
use winter_math::fields::{f128, f62, f64};
use winter_math::{add_in_place, batch_inversion, get_power_series, get_power_series_with_offset, mul_acc, ExtensionOf, FieldElement};
use winter_utils::{flatten_slice_elements, flatten_vector_elements, group_slice_elements, transpose_slice};

pub fn prop() -> Prop {
    Prop {
        id: "C14",
        level: "exploration",
        rule: "case = (element type among f62/f64/f128 and their supported extensions; function; length in {0,1,2,1023,1024,1025,2047,2048,16*1024+-1, random <= 40000}; zero pattern in {none, start, end, every k-th, all}; base in {0,1,-1,random}). Oracle: element-wise definitions computed with reference arithmetic (full comparison up to 300 elements, first/last/boundary-of-batch + 40 generated indexes above), index formulas for grouping/flattening/transposition. Non-trivial = length >= 2 (for inversion: contains a zero and a non-zero); distinct = hash of (type, function, length, pattern, seed).",
        assumptions: vec![
            "get_power_series and friends document no minimum length, so length 0 is in the domain",
            "the thread-count clause (same values for every thread count around threads*1024) is decided by the serial/concurrent differential stage of this check (vdet family 'batch'; evidence key thread_differential)",
        ],
        subs: vec![Sub::gen("batch", batch_case, 96, 24_000, 500_000), Sub::gen("slices", slice_case, 32, 100_000, 4_000_000)],
        required: vec!["len_0", "len_1024", "len_1025", "fn:batch_inversion", "fn:get_power_series", "fn:get_power_series_with_offset", "fn:add_in_place", "fn:mul_acc", "inversion_with_zero_and_nonzero", "fn:transpose_slice", "fn:group_slice_elements", "fn:flatten_vector_elements"],
        required_thorough: vec![],
    }
}

fn batch_case(s: &mut Src, rec: &mut Rec) -> CaseResult {
    match s.below(8) {
        0 => run::<F62, f62::BaseElement>(s, rec),
        1 => run::<F62, Q<f62::BaseElement>>(s, rec),
        2 => run::<F62, C<f62::BaseElement>>(s, rec),
        3 => run::<F64, f64::BaseElement>(s, rec),
        4 => run::<F64, Q<f64::BaseElement>>(s, rec),
        5 => run::<F64, C<f64::BaseElement>>(s, rec),
        6 => run::<F128, f128::BaseElement>(s, rec),
        _ => run::<F128, Q<f128::BaseElement>>(s, rec),
    }
}

fn gen_len(s: &mut Src) -> usize {
    match s.below(12) {
        0 => 0,
        1 => 1,
        2 => 2,
        3 => s.pick_copy(&[1023usize, 1024, 1025, 2047, 2048, 2049]),
        4 => s.pick_copy(&[16 * 1024 - 1, 16 * 1024, 16 * 1024 + 1]),
        5 => 1024,
        6 => 1025,
        7 | 8 => s.below(64) as usize,
        9 => s.below(40_000) as usize,
        _ => s.below(3000) as usize,
    }
}

fn run<S: Spec, E: FieldElement<BaseField = S::B> + ExtensionOf<S::B>>(s: &mut Src, rec: &mut Rec) -> CaseResult {
    let ctx = ctx_of::<S, E>();
    let tname = format!("{}^{}", S::NAME, E::EXTENSION_DEGREE);
    let n = gen_len(s);
    rec.class_if(n == 0, "len_0");
    rec.class_if(n == 1024, "len_1024");
    rec.class_if(n == 1025, "len_1025");
    let func = s.below(5);
    let fname = ["batch_inversion", "get_power_series", "get_power_series_with_offset", "add_in_place", "mul_acc"][func as usize];
    rec.class(&format!("fn:{fname}"));
    let seed = s.u64();
    let pattern = s.below(6);
    let k = s.range(2, 9) as usize;
    rec.set_fp(&(&tname, func, n, pattern, k, seed));
    rec.describe(|| json!({"type": tname, "function": fname, "length": n, "zero_pattern": pattern, "seed": seed}));
    if n >= 2 {
        rec.nontrivial();
    }
    // indexes compared against the reference
    let idx: Vec<usize> = if n <= 300 {
        (0..n).collect()
    } else {
        let mut v = vec![0, 1, n - 1, n - 2, n / 2, 1023.min(n - 1), 1024.min(n - 1), 1025.min(n - 1)];
        for _ in 0..40 {
            v.push(s.below(n as u64) as usize);
        }
        v
    };
    macro_rules! guard {
        ($e:expr) => {
            match catch(|| $e) {
                Ok(v) => v,
                Err(pn) => return Err(Fail::new(pn.key(), format!("{tname} {fname} panicked for length {n}: {} ({})", pn.message, pn.location))),
            }
        };
    }
    let mut mix = Mix(seed);
    let is_zero_at = |i: usize| -> bool {
        match pattern {
            0 => false,
            1 => i < k,
            2 => i + k >= n,
            3 => i % k == 0,
            4 => true,
            _ => i % k != 0,
        }
    };
    let mut gen_vec = |s: &mut Src, with_zeros: bool| -> (Vec<E>, Vec<Elt>) {
        let mut a = Vec::with_capacity(n);
        let mut b = Vec::with_capacity(n);
        for i in 0..n {
            if with_zeros && is_zero_at(i) {
                // zero through different representations
                let (z, _) = gen_elem::<S, E>(s);
                a.push(if i % 2 == 0 { E::ZERO } else { z - z });
                b.push(ctx.zero());
            } else {
                let (e, v) = if i < 3 { gen_elem::<S, E>(s) } else { mix.elem::<S, E>() };
                a.push(e);
                b.push(v);
            }
        }
        (a, b)
    };
    match func {
        0 => {
            let (vals, vr) = gen_vec(s, true);
            let has_zero = vr.iter().any(|v| ctx.is_zero(v));
            let has_nonzero = vr.iter().any(|v| !ctx.is_zero(v));
            rec.nontrivial = has_zero && has_nonzero;
            rec.class_if(has_zero && has_nonzero, "inversion_with_zero_and_nonzero");
            let out = guard!(batch_inversion(&vals));
            ensure!(out.len() == n, "batch_inversion-length", "batch_inversion returned {} values for {n} inputs", out.len());
            for i in idx {
                let got = to_ints::<S, E>(&out[i]);
                let want = ctx.inv(&vr[i]);
                ensure!(got == want, "batch_inversion-wrong", "{tname} batch_inversion (length {n}): output[{i}] = {} but the inverse of {} is {}", show(&got), show(&vr[i]), show(&want));
            }
        },
        1 | 2 => {
            let (b, bv) = match s.below(5) {
                0 => (E::ZERO, ctx.zero()),
                1 => (E::ONE, ctx.one()),
                2 => (-E::ONE, ctx.neg(&ctx.one())),
                _ => gen_elem::<S, E>(s),
            };
            let (off, ov) = if func == 2 { gen_elem::<S, E>(s) } else { (E::ONE, ctx.one()) };
            let out = if func == 1 { guard!(get_power_series(b, n)) } else { guard!(get_power_series_with_offset(b, off, n)) };
            ensure!(out.len() == n, "power_series-length", "{fname} returned {} values for n = {n}", out.len());
            for i in idx {
                let got = to_ints::<S, E>(&out[i]);
                let want = ctx.mul(&ov, &ctx.pow(&bv, i as u128));
                ensure!(got == want, format!("{fname}-wrong"), "{tname} {fname}(b = {}, n = {n}): output[{i}] = {} expected {}", show(&bv), show(&got), show(&want));
            }
        },
        3 => {
            let (mut a, ar) = gen_vec(s, false);
            let (b, br) = gen_vec(s, true);
            guard!(add_in_place(&mut a, &b));
            for i in idx {
                let got = to_ints::<S, E>(&a[i]);
                let want = ctx.add(&ar[i], &br[i]);
                ensure!(got == want, "add_in_place-wrong", "{tname} add_in_place (length {n}): a[{i}] = {} expected {}", show(&got), show(&want));
            }
        },
        _ => {
            // a[i] += b[i] * c with b in the base field and a, c in E
            let (mut a, ar) = gen_vec(s, false);
            let mut b: Vec<S::B> = Vec::with_capacity(n);
            let mut br: Vec<u128> = Vec::with_capacity(n);
            let mut mix2 = Mix(seed ^ 0xabcdef);
            for i in 0..n {
                let v = if is_zero_at(i) { 0 } else { mix2.int::<S>() };
                b.push(S::from_int(v));
                br.push(v);
            }
            let (c, cv) = gen_elem::<S, E>(s);
            guard!(mul_acc(&mut a, &b, c));
            for i in idx {
                let got = to_ints::<S, E>(&a[i]);
                let want = ctx.add(&ar[i], &ctx.mul_base(&cv, br[i]));
                ensure!(got == want, "mul_acc-wrong", "{tname} mul_acc (length {n}): a[{i}] = {} expected {}", show(&got), show(&want));
            }
        },
    }
    rec.weight = n.max(1) as u64;
    Ok(())
}

// GROUPING / FLATTENING / TRANSPOSITION ON TAGGED INTEGERS
// ================================================================================================

fn slice_case(s: &mut Src, rec: &mut Rec) -> CaseResult {
    let func = s.below(4);
    let fname = ["group_slice_elements", "flatten_slice_elements", "flatten_vector_elements", "transpose_slice"][func as usize];
    rec.class(&format!("fn:{fname}"));
    let n_sel = s.below(6);
    let rows = match s.below(6) {
        0 => 0,
        1 => 1,
        2 => s.pick_copy(&[1023usize, 1024, 1025]),
        _ => s.below(200) as usize,
    };
    rec.set_fp(&(func, n_sel, rows));
    rec.nontrivial = rows >= 2;
    macro_rules! go {
        ($N:expr) => {{
            let n = rows * $N;
            rec.describe(|| json!({"function": fname, "N": $N, "rows": rows}));
            let src: Vec<u32> = (0..n as u32).map(|i| i.wrapping_mul(2654435761).wrapping_add(7)).collect();
            match func {
                0 => {
                    let g: &[[u32; $N]] = group_slice_elements(&src);
                    ensure!(g.len() == rows, "group-length", "group_slice_elements::<{}> of {n} elements has {} groups", $N, g.len());
                    for i in 0..rows {
                        for j in 0..$N {
                            ensure!(g[i][j] == src[i * $N + j], "group-order", "group_slice_elements::<{}>: [{i}][{j}] is not source[{}]", $N, i * $N + j);
                        }
                    }
                },
                1 | 2 => {
                    let grouped: Vec<[u32; $N]> = (0..rows).map(|i| core::array::from_fn(|j| src[i * $N + j])).collect();
                    let flat: Vec<u32> = if func == 1 { flatten_slice_elements(&grouped).to_vec() } else { flatten_vector_elements(grouped) };
                    ensure!(flat == src, "flatten-order", "{fname}::<{}> does not preserve element order ({} rows)", $N, rows);
                },
                _ => {
                    let t: Vec<[u32; $N]> = match catch(|| transpose_slice::<u32, $N>(&src)) {
                        Ok(t) => t,
                        Err(pn) => return Err(Fail::new(pn.key(), format!("transpose_slice::<{}> panicked on {n} elements: {}", $N, pn.message))),
                    };
                    ensure!(t.len() == rows, "transpose-length", "transpose_slice::<{}> of {n} elements has {} rows", $N, t.len());
                    for i in 0..rows {
                        for j in 0..$N {
                            ensure!(t[i][j] == src[i + j * rows], "transpose-order", "transpose_slice::<{}> ({rows} rows): [{i}][{j}] is not source[{}]", $N, i + j * rows);
                        }
                    }
                },
            }
        }};
    }
    match n_sel {
        0 => go!(1),
        1 => go!(2),
        2 => go!(3),
        3 => go!(4),
        4 => go!(8),
        _ => go!(16),
    }
    Ok(())
}
