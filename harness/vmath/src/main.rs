//! C10–C14: field arithmetic, constants/encodings, FFT, polynomial helpers, batch utilities.

use vcore::*;

mod c10;
mod c11;
mod c12;
mod c13;
mod c14;

fn main() {
    vref::field::startup_selfcheck();
    let props = vec![c10::prop(), c11::prop(), c12::prop(), c13::prop(), c14::prop()];
    main_with(props);
}
