fn main() {
    vcore::main_with(vmath::props());
}
