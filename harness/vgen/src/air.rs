//! GenAir: the `Air` implementation interpreting a [`Spec`].

use std::marker::PhantomData;
use std::sync::Arc;

use vfield::Spec as FSpec;
use winter_air::{
    Air, AirContext, Assertion, AuxRandElements, EvaluationFrame, ProofOptions, TraceInfo, TransitionConstraintDegree,
};
use winter_math::{ExtensionOf, FieldElement, ToElements};

use crate::spec::*;

/// public inputs = the instance description (+ what of it is bound into the public-coin seed)
#[derive(Clone, Debug)]
pub struct PubInputs<S: FSpec> {
    pub spec: SpecRef,
    _s: PhantomData<S>,
}
impl<S: FSpec> PubInputs<S> {
    pub fn new(spec: SpecRef) -> Self {
        PubInputs { spec, _s: PhantomData }
    }
}
impl<S: FSpec> ToElements<S::B> for PubInputs<S> {
    fn to_elements(&self) -> Vec<S::B> {
        let sp = &self.spec;
        let mut out: Vec<S::B> = vec![];
        let push64 = |out: &mut Vec<S::B>, v: u64| {
            out.push(S::B::from(v as u32));
            out.push(S::B::from((v >> 32) as u32));
        };
        push64(&mut out, sp.tag);
        // every asserted value and every constraint coefficient is part of the statement
        // (in a canonical order: the public inputs describe the statement, not the listing order of
        // the assertions, so that C22's order-independence of the proof can be observed)
        let mut main: Vec<&AssertSpec> = sp.assertions.iter().collect();
        main.sort_by_key(|a| (a.column, a.first, a.stride));
        let mut aux: Vec<&AssertSpec> = sp.aux_assertions.iter().collect();
        aux.sort_by_key(|a| (a.column, a.first, a.stride));
        for a in main.into_iter().chain(aux) {
            out.push(S::B::from(a.column as u32));
            out.push(S::B::from(a.first as u32));
            out.push(S::B::from(a.stride as u32));
            for v in &a.values {
                out.push(S::from_int(*v % S::P));
            }
        }
        push64(&mut out, sp.statement_fingerprint());
        out
    }
}

pub struct GenAir<S: FSpec> {
    context: AirContext<S::B>,
    spec: SpecRef,
    /// true when the (trace info, options) did not match the spec and a degenerate AIR was built
    pub degenerate: bool,
}

fn degenerate_spec(field: &'static str, info: &TraceInfo) -> Spec {
    let w = info.main_trace_width();
    let aux_w = info.aux_segment_width();
    Spec {
        field,
        main_width: w,
        aux: (0..aux_w).map(|_| AuxKind::Sum { c1: 0, c2: 0, rand: 0 }).collect(),
        num_rands: info.get_num_aux_segment_rand_elements(),
        trace_len: info.length(),
        exemptions: 1,
        periodic: vec![],
        constraints: vec![MainConstraint { f: vec![Term { coef: 1, vars: vec![(0, 1)] }], g: vec![], periodic: None }],
        assertions: vec![AssertSpec { column: 0, first: 0, stride: 0, values: vec![0], kind: 0 }],
        aux_assertions: if aux_w > 0 { vec![AssertSpec { column: 0, first: 0, stride: 0, values: vec![0], kind: 0 }] } else { vec![] },
        tag: 0,
        meta: vec![],
        keep_tail: vec![true; w],
    }
}

fn consistent(spec: &Spec, info: &TraceInfo, options: &ProofOptions) -> bool {
    let n = info.length();
    spec.main_width == info.main_trace_width()
        && spec.aux.len() == info.aux_segment_width()
        && spec.num_rands == info.get_num_aux_segment_rand_elements()
        && spec.trace_len == n
        && spec.constraints.len() == spec.main_width
        && options.blowup_factor() >= spec.min_blowup()
        && spec.exemptions >= 1
        && spec.exemptions <= n / 2 + 1
        && spec.periodic.iter().all(|p| p.len() >= 2 && p.len().is_power_of_two() && p.len() <= n)
        && spec.aux.iter().all(|a| match a {
            AuxKind::Product { col, rand } => *col < spec.main_width && *rand < spec.num_rands.max(1) && spec.num_rands > 0,
            AuxKind::Sum { c1, c2, rand } => *c1 < spec.main_width && *c2 < spec.main_width && (*rand < spec.num_rands || spec.num_rands == 0),
        })
}

impl<S: FSpec> GenAir<S> {
    pub fn spec(&self) -> &Spec {
        &self.spec
    }
    fn coef<E: FieldElement<BaseField = S::B>>(v: u128) -> E {
        E::from(S::from_int(v % S::P))
    }
    fn eval_terms<E: FieldElement<BaseField = S::B>>(terms: &[Term], cur: &[E]) -> E {
        let mut acc = E::ZERO;
        for t in terms {
            let mut m: E = Self::coef(t.coef);
            for (col, exp) in &t.vars {
                let x = cur[*col];
                for _ in 0..*exp {
                    m *= x;
                }
            }
            acc += m;
        }
        acc
    }
}

impl<S: FSpec> Air for GenAir<S> {
    type BaseField = S::B;
    type PublicInputs = PubInputs<S>;

    fn new(trace_info: TraceInfo, pub_inputs: PubInputs<S>, options: ProofOptions) -> Self {
        let (spec, degenerate) = if consistent(&pub_inputs.spec, &trace_info, &options) {
            (pub_inputs.spec.clone(), false)
        } else {
            (Arc::new(degenerate_spec(S::NAME, &trace_info)), true)
        };
        let main_degrees: Vec<TransitionConstraintDegree> = spec
            .constraints
            .iter()
            .map(|c| {
                let cycles = spec.cycles_of(c);
                if cycles.is_empty() {
                    TransitionConstraintDegree::new(c.base_degree())
                } else {
                    TransitionConstraintDegree::with_cycles(c.base_degree(), cycles)
                }
            })
            .collect();
        let context = if spec.aux.is_empty() {
            AirContext::new(trace_info, main_degrees, spec.assertions.len(), options)
        } else {
            let aux_degrees = spec.aux.iter().map(|_| TransitionConstraintDegree::new(2)).collect();
            AirContext::new_multi_segment(trace_info, main_degrees, aux_degrees, spec.assertions.len(), spec.aux_assertions.len(), options)
        };
        // the documented range of exemptions additionally depends on the declared degrees
        let n = spec.trace_len;
        let max_deg = spec.constraints.iter().map(|c| c.base_degree() * (n - 1) + spec.cycles_of(c).iter().map(|cy| (n / cy) * (cy - 1)).sum::<usize>()).max().unwrap_or(n - 1);
        let max_deg = if spec.aux.is_empty() { max_deg } else { max_deg.max(2 * (n - 1)) };
        let max_exemptions = context.ce_domain_size() - 1 + n - max_deg;
        let k = if spec.exemptions <= max_exemptions { spec.exemptions } else { 1 };
        let context = context.set_num_transition_exemptions(k);
        GenAir { context, spec, degenerate }
    }

    fn context(&self) -> &AirContext<S::B> {
        &self.context
    }

    fn evaluate_transition<E: FieldElement<BaseField = S::B>>(&self, frame: &EvaluationFrame<E>, periodic_values: &[E], result: &mut [E]) {
        let cur = frame.current();
        let next = frame.next();
        for (j, c) in self.spec.constraints.iter().enumerate() {
            let mut rhs = Self::eval_terms(&c.f, cur);
            if let Some(k) = c.periodic {
                if !c.g.is_empty() {
                    rhs += periodic_values[k] * Self::eval_terms(&c.g, cur);
                }
            }
            result[j] = next[j] - rhs;
        }
    }

    fn get_assertions(&self) -> Vec<Assertion<S::B>> {
        self.spec.assertions.iter().map(|a| to_assertion::<S, S::B>(a)).collect()
    }

    fn evaluate_aux_transition<F, E>(&self, main_frame: &EvaluationFrame<F>, aux_frame: &EvaluationFrame<E>, _periodic_values: &[F], aux_rand_elements: &AuxRandElements<E>, result: &mut [E])
    where
        F: FieldElement<BaseField = S::B>,
        E: FieldElement<BaseField = S::B> + ExtensionOf<F>,
    {
        let m = main_frame.current();
        let a = aux_frame.current();
        let an = aux_frame.next();
        let rands = aux_rand_elements.rand_elements();
        for (i, kind) in self.spec.aux.iter().enumerate() {
            result[i] = match kind {
                AuxKind::Product { col, rand } => an[i] - a[i] * (rands[*rand] + E::from(m[*col])),
                AuxKind::Sum { c1, c2, rand } => {
                    let r = rands.get(*rand).copied().unwrap_or(E::ONE);
                    an[i] - (a[i] + r * E::from(m[*c1]) * E::from(m[*c2]))
                },
            };
        }
    }

    fn get_aux_assertions<E: FieldElement<BaseField = S::B>>(&self, _aux_rand_elements: &AuxRandElements<E>) -> Vec<Assertion<E>> {
        self.spec.aux_assertions.iter().map(|a| to_assertion::<S, E>(a)).collect()
    }

    fn get_periodic_column_values(&self) -> Vec<Vec<S::B>> {
        self.spec.periodic.iter().map(|p| p.iter().map(|v| S::from_int(*v % S::P)).collect()).collect()
    }
}

pub fn to_assertion<S: FSpec, E: FieldElement<BaseField = S::B>>(a: &AssertSpec) -> Assertion<E> {
    let val = |v: &u128| E::from(S::from_int(*v % S::P));
    match a.kind {
        0 => Assertion::single(a.column, a.first, val(&a.values[0])),
        1 => Assertion::periodic(a.column, a.first, a.stride, val(&a.values[0])),
        _ => Assertion::sequence(a.column, a.first, a.stride, a.values.iter().map(val).collect()),
    }
}
