//! vgen — GenAir: a parametric family of satisfiable AIR instances (DESIGN.md 3.1), its prover,
//! trace generator, independent constraint checker (3.2) and proof-option generator.

pub mod air;
pub mod c22;
pub mod checker;
pub mod gen;
pub mod options;
pub mod prover;
pub mod spec;
pub mod trace;

pub use air::{GenAir, PubInputs};
pub use prover::{GenProver, GenTrace};
pub use spec::*;
