pub fn c22_subs() -> Vec<vcore::Sub> { vec![] }
