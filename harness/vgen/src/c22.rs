//! C22 (constraint level) — boundary constraints vanish exactly on asserted cells; divisors vanish
//! exactly on the group's asserted points; coefficient assignment is independent of listing order.

use std::collections::{BTreeSet, HashSet};
use std::sync::Arc;

use vcore::*;
use vfield::{gen_elem, gen_int, Mix, Spec as FSpec, F128, F62, F64, Q};
use winter_air::{Air, AuxRandElements, BatchingMethod, BoundaryConstraintGroup, FieldExtension, ProofOptions, TraceInfo};
use winter_math::{ExtensionOf, FieldElement, StarkField};

use crate::air::{GenAir, PubInputs};
use crate::spec::*;

pub fn c22_subs() -> Vec<Sub> {
    vec![Sub::gen("constraints", constraints, 200, 30_000, 800_000), Sub::gen("e2e_order", e2e_order, 400, 1_200, 30_000)]
}

pub const C22_RULE: &str = "case = valid (pairwise non-overlapping) assertion set: 1..12 main assertions and optionally 1..5 auxiliary assertions of all kinds (single; periodic; sequence of 2..n/2 values with any first step and stride, incl. >= 64 values; several assertions sharing one divisor) over n = 8..1024, f62/f64/f128 and their quadratic extensions, with known distinct composition coefficients, listed in a generated order. Oracle: for every group the divisor vanishes on exactly the asserted steps of the group over the whole trace domain and has degree equal to their number; every constraint evaluates to 0 at each asserted step for the asserted value and to delta for value + delta; off the domain the group's evaluation equals sum cc_i (state[col_i] - P_i(x)) / prod (x - g^s) with P_i by Lagrange interpolation from the definition; divisors, value polynomials and coefficients are identical under a permutation of the AIR's assertion list ; sub-check e2e_order: a GenAir instance (incl. forced sequences of 64..512 values with the first step anywhere in the stride) is proved twice by the real prover, once per listing order of its assertions, with public inputs that encode the statement in a canonical order: the two proofs are byte-identical and the verifier accepts them. Non-trivial = at least two different divisors; distinct = hash of the assertion set.";
pub fn c22_assumptions() -> Vec<&'static str> {
    vec![
        "assertion sets are made non-overlapping with the harness's own cell-set predicate (overlap detection itself is C21's subject)",
        "the reference uses winterfell's field operators (C10's subject) but only definition-level formulas: explicit products over roots and Lagrange sums, no FFT, no Assertion::apply",
    ]
}

pub const C22_REQUIRED: &[&str] = &["sequence_ge_64", "first_step_nonzero", "aux_assertion", "permutation_not_identity", "groups_ge_2", "ext_field", "shared_divisor", "e2e:order_changed", "e2e:sequence_offset_ge_values"];

fn constraints(s: &mut Src, rec: &mut Rec) -> CaseResult {
    match s.below(6) {
        0 => run::<F62, <F62 as FSpec>::B>(s, rec),
        1 => run::<F64, <F64 as FSpec>::B>(s, rec),
        2 => run::<F128, <F128 as FSpec>::B>(s, rec),
        3 => run::<F62, Q<<F62 as FSpec>::B>>(s, rec),
        4 => run::<F64, Q<<F64 as FSpec>::B>>(s, rec),
        _ => run::<F128, Q<<F128 as FSpec>::B>>(s, rec),
    }
}

/// a valid (pairwise non-overlapping) set of assertions with arbitrary values
fn gen_assertion_set<S: FSpec>(s: &mut Src, n: usize, width: usize, count: usize, rec: &mut Rec) -> Vec<AssertSpec> {
    let log_n = n.ilog2();
    let mut used: HashSet<(usize, usize)> = HashSet::new();
    let mut out: Vec<AssertSpec> = vec![];
    let mut tries = 0;
    let mut mix = Mix(s.u64());
    while out.len() < count && tries < 6 * count + 10 {
        tries += 1;
        let col = s.below(width as u64) as usize;
        // reuse the (stride, first) of an earlier assertion now and then: several constraints share one divisor
        let reuse = !out.is_empty() && s.chance(1, 3);
        let a = if reuse {
            let prev = s.pick(&out).clone();
            let vals: Vec<u128> = prev.values.iter().map(|_| mix.int::<S>()).collect();
            AssertSpec { column: col, values: vals, ..prev }
        } else {
            match s.below(4) {
                0 => {
                    let step = match s.below(4) {
                        0 => 0,
                        1 => n - 1,
                        _ => s.below(n as u64) as usize,
                    };
                    AssertSpec { column: col, first: step, stride: 0, values: vec![gen_int::<S>(s)], kind: 0 }
                },
                1 => {
                    let stride = 1usize << s.range(1, log_n as u64);
                    AssertSpec { column: col, first: s.below(stride as u64) as usize, stride, values: vec![gen_int::<S>(s)], kind: 1 }
                },
                _ => {
                    let len = 1usize << s.range(1, (log_n - 1) as u64);
                    let stride = n / len;
                    let first = if s.chance(1, 3) { 0 } else { s.below(stride as u64) as usize };
                    AssertSpec { column: col, first, stride, values: (0..len).map(|i| if i < 2 { gen_int::<S>(s) } else { mix.int::<S>() }).collect(), kind: 2 }
                },
            }
        };
        let cells: Vec<(usize, usize)> = a.steps(n).into_iter().map(|st| (a.column, st)).collect();
        if cells.iter().all(|c| !used.contains(c)) {
            for c in cells {
                used.insert(c);
            }
            rec.class_if(a.kind == 2 && a.values.len() >= 64, "sequence_ge_64");
            rec.class_if(a.kind != 0 && a.first != 0, "first_step_nonzero");
            rec.class_if(reuse, "shared_divisor");
            out.push(a);
        }
    }
    if out.is_empty() {
        out.push(AssertSpec { column: 0, first: 0, stride: 0, values: vec![1], kind: 0 });
    }
    out
}

fn shuffle<T>(s: &mut Src, v: &mut [T]) -> bool {
    let mut moved = false;
    for i in (1..v.len()).rev() {
        let j = s.below(i as u64 + 1) as usize;
        if i != j {
            moved = true;
        }
        v.swap(i, j);
    }
    moved
}

fn make_air<S: FSpec>(n: usize, width: usize, aux_width: usize, main: Vec<AssertSpec>, aux: Vec<AssertSpec>) -> GenAir<S> {
    let spec = Spec {
        field: S::NAME,
        main_width: width,
        aux: (0..aux_width).map(|_| AuxKind::Sum { c1: 0, c2: 0, rand: 0 }).collect(),
        num_rands: if aux_width > 0 { 1 } else { 0 },
        trace_len: n,
        exemptions: 1,
        periodic: vec![],
        constraints: (0..width).map(|j| MainConstraint { f: vec![Term { coef: 1, vars: vec![(j, 1)] }], g: vec![], periodic: None }).collect(),
        assertions: main,
        aux_assertions: aux,
        tag: 0,
        meta: vec![],
        keep_tail: vec![true; width],
    };
    let options = ProofOptions::new(1, 2, 0, FieldExtension::None, 2, 0, BatchingMethod::Linear, BatchingMethod::Linear);
    let info = TraceInfo::new_multi_segment(width, aux_width, if aux_width > 0 { 1 } else { 0 }, n, vec![]);
    let air = GenAir::<S>::new(info, PubInputs::new(Arc::new(spec)), options);
    assert!(!air.degenerate, "harness: C22 spec not accepted by GenAir");
    air
}

/// checks one family of groups (main or aux) against the assertion list it was derived from
#[allow(clippy::too_many_arguments)]
fn check_groups<S: FSpec, F, E>(groups: &[BoundaryConstraintGroup<F, E>], asserts: &[AssertSpec], n: usize, width: usize, seen_cc: &mut Vec<E>, label: &str, s: &mut Src, rec: &mut Rec) -> CaseResult
where
    F: FieldElement<BaseField = S::B>,
    E: FieldElement<BaseField = S::B> + ExtensionOf<F>,
{
    let g = <S::B as StarkField>::get_root_of_unity(n.ilog2());
    let domain: Vec<S::B> = {
        let mut v = Vec::with_capacity(n);
        let mut x = S::B::ONE;
        for _ in 0..n {
            v.push(x);
            x *= g;
        }
        v
    };
    let total: usize = groups.iter().map(|gr| gr.constraints().len()).sum();
    ensure!(total == asserts.len(), "constraint-count", "{label}: {} boundary constraints for {} assertions", total, asserts.len());
    rec.class_if(groups.len() >= 2, "groups_ge_2");
    let mut matched: BTreeSet<usize> = BTreeSet::new();
    for (gi, group) in groups.iter().enumerate() {
        // zero set of the divisor over the whole trace domain
        let zeros: BTreeSet<usize> = (0..n).filter(|st| group.divisor().evaluate_at(E::from(domain[*st])) == E::ZERO).collect();
        ensure!(group.divisor().degree() == zeros.len(), "divisor-degree", "{label} group {gi}: divisor degree {} but it vanishes on {} trace-domain points", group.divisor().degree(), zeros.len());
        for c in group.constraints() {
            // the assertion this constraint was derived from: same column, same step set
            let found = asserts.iter().enumerate().find(|(i, a)| !matched.contains(i) && a.column == c.column() && a.steps(n).into_iter().collect::<BTreeSet<_>>() == zeros);
            let Some((ai, a)) = found else {
                return Err(Fail::new("divisor-zero-set", format!("{label} group {gi}: the divisor vanishes on steps {:?}.. which is not the step set of any assertion on column {} (assertions: {:?})", zeros.iter().take(6).collect::<Vec<_>>(), c.column(), asserts.iter().map(|a| (a.column, a.first, a.stride, a.values.len())).collect::<Vec<_>>())));
            };
            matched.insert(ai);
            seen_cc.push(*c.cc());
            for (i, st) in a.steps(n).into_iter().enumerate() {
                let x = E::from(domain[st]);
                let v = E::from(S::from_int(a.value_at(i) % S::P));
                let at = c.evaluate_at(x, v);
                ensure!(at == E::ZERO, "constraint-nonzero-at-asserted-value", "{label}: constraint for assertion (col {}, first {}, stride {}, {} values) does not vanish at asserted step {st} when the trace holds the asserted value", a.column, a.first, a.stride, a.values.len());
                let delta = E::from(S::from_int(1 + (st as u128 % 7)));
                let off = c.evaluate_at(x, v + delta);
                ensure!(off == delta, "constraint-zero-at-wrong-value", "{label}: constraint for assertion (col {}, first {}, stride {}) evaluates to {off} instead of the deviation {delta} at step {st}", a.column, a.first, a.stride);
            }
        }
        // off-domain: the group's rational function equals its definition (small groups only: the reference is quadratic)
        let group_asserts: Vec<&AssertSpec> = asserts.iter().filter(|a| group.constraints().iter().any(|c| c.column() == a.column) && a.steps(n).into_iter().collect::<BTreeSet<_>>() == zeros).collect();
        if zeros.len() <= 64 && group_asserts.len() == group.constraints().len() {
            let (x, _) = gen_elem::<S, E>(s);
            let z = zeros.iter().fold(E::ONE, |acc, st| acc * (x - E::from(domain[*st])));
            if z != E::ZERO {
                let mut mix = Mix(0x77 + gi as u64);
                let state: Vec<E> = (0..width).map(|_| mix.elem::<S, E>().0).collect();
                let mut num = E::ZERO;
                for c in group.constraints() {
                    let a = group_asserts.iter().find(|a| a.column == c.column()).unwrap();
                    // Lagrange value of the assertion's value polynomial at x, from the definition
                    let steps = a.steps(n);
                    let mut p = E::ZERO;
                    if a.kind == 2 {
                        for (i, si) in steps.iter().enumerate() {
                            let xi = E::from(domain[*si]);
                            let mut l = E::from(S::from_int(a.values[i] % S::P));
                            for sj in steps.iter() {
                                if sj != si {
                                    let xj = E::from(domain[*sj]);
                                    l *= (x - xj) / (xi - xj);
                                }
                            }
                            p += l;
                        }
                    } else {
                        p = E::from(S::from_int(a.values[0] % S::P));
                    }
                    num += *c.cc() * (state[c.column()] - p);
                }
                let want = num / z;
                let got = group.evaluate_at(&state, x);
                ensure!(got == want, "group-evaluation", "{label} group {gi} ({} constraints, {} asserted steps): evaluate_at off the trace domain differs from sum cc_i (state - value_poly(x)) / prod (x - g^s)", group.constraints().len(), zeros.len());
            }
        }
    }
    ensure!(matched.len() == asserts.len(), "assertion-without-constraint", "{label}: some assertion has no boundary constraint");
    Ok(())
}

fn same_groups<F, E>(a: &[BoundaryConstraintGroup<F, E>], b: &[BoundaryConstraintGroup<F, E>]) -> bool
where
    F: FieldElement,
    E: FieldElement<BaseField = F::BaseField> + ExtensionOf<F>,
{
    a.len() == b.len() && a.iter().zip(b).all(|(x, y)| x.divisor() == y.divisor() && x.constraints() == y.constraints())
}

fn run<S: FSpec, E: FieldElement<BaseField = S::B> + ExtensionOf<S::B>>(s: &mut Src, rec: &mut Rec) -> CaseResult {
    rec.class_if(E::EXTENSION_DEGREE > 1, "ext_field");
    let log_n = match s.below(4) {
        0 => 3,
        1 => s.range(7, 10),
        _ => s.range(3, 8),
    } as u32;
    let n = 1usize << log_n;
    let width = s.range(1, 6) as usize;
    let aux_width = if s.chance(1, 3) { s.range(1, 3) as usize } else { 0 };
    let count = s.range(1, 12) as usize;
    let main = gen_assertion_set::<S>(s, n, width, count, rec);
    let aux = if aux_width > 0 {
        rec.class("aux_assertion");
        let c = s.range(1, 5) as usize;
        gen_assertion_set::<S>(s, n, aux_width, c, rec)
    } else {
        vec![]
    };
    let total = main.len() + aux.len();
    let coeffs: Vec<E> = (0..total).map(|i| E::from(S::from_int(1_000_003 + 17 * i as u128))).collect();
    rec.set_fp(&(S::NAME, E::EXTENSION_DEGREE, n, width, &main, &aux));
    rec.describe(|| json!({"field": S::NAME, "extension_degree": E::EXTENSION_DEGREE, "n": n, "main_assertions": main.iter().map(|a| json!([a.column, a.first, a.stride, a.values.len()])).collect::<Vec<_>>(), "aux_assertions": aux.iter().map(|a| json!([a.column, a.first, a.stride, a.values.len()])).collect::<Vec<_>>()}));
    if main.iter().map(|a| (a.stride, a.first)).collect::<BTreeSet<_>>().len() >= 2 {
        rec.nontrivial();
    }
    let rands = AuxRandElements::new(vec![E::ONE]);
    let aux_arg = if aux_width > 0 { Some(&rands) } else { None };
    let air = make_air::<S>(n, width, aux_width, main.clone(), aux.clone());
    let bc = match catch(|| air.get_boundary_constraints::<E>(aux_arg, &coeffs)) {
        Ok(b) => b,
        Err(pn) => return Err(Fail::new(pn.key(), format!("get_boundary_constraints panicked on a valid (non-overlapping) assertion set: {} at {}", pn.message, pn.location))),
    };
    let mut seen: Vec<E> = vec![];
    check_groups::<S, S::B, E>(bc.main_constraints(), &main, n, width, &mut seen, "main", s, rec)?;
    check_groups::<S, E, E>(bc.aux_constraints(), &aux, n, aux_width.max(1), &mut seen, "aux", s, rec)?;
    // every coefficient is used exactly once
    let mut a: Vec<String> = seen.iter().map(|c| format!("{c}")).collect();
    let mut b: Vec<String> = coeffs.iter().map(|c| format!("{c}")).collect();
    a.sort();
    b.sort();
    ensure!(a == b, "coefficients-not-a-permutation", "the composition coefficients attached to the constraints are not exactly the supplied ones");
    // listing order does not matter
    let mut main2 = main.clone();
    let mut aux2 = aux.clone();
    let m1 = shuffle(s, &mut main2);
    let m2 = shuffle(s, &mut aux2);
    if m1 || m2 {
        rec.class("permutation_not_identity");
    }
    let air2 = make_air::<S>(n, width, aux_width, main2, aux2);
    let bc2 = air2.get_boundary_constraints::<E>(aux_arg, &coeffs);
    ensure!(same_groups(bc.main_constraints(), bc2.main_constraints()) && same_groups(bc.aux_constraints(), bc2.aux_constraints()), "order-dependent-coefficients", "{} n = {n}: boundary constraints (divisors, value polynomials or composition coefficients) change when the AIR lists the same assertions in a different order", S::NAME);
    rec.weight = total as u64;
    Ok(())
}


// END-TO-END: THE PROOF DOES NOT DEPEND ON THE LISTING ORDER OF THE ASSERTIONS
// ================================================================================================

fn e2e_order(s: &mut Src, rec: &mut Rec) -> CaseResult {
    // mostly the cheap hashers; the Rescue instances occasionally
    let idx = if s.chance(1, 8) { 9 + s.below(3) } else { s.below(9) };
    vhash::with_hasher!(idx, X, run_e2e::<X>(s, rec))
}

fn run_e2e<X: vhash::HS>(s: &mut Src, rec: &mut Rec) -> CaseResult
where
    X::H: Send + Sync,
{
    use std::sync::Arc;

    use winter_crypto::{DefaultRandomCoin, MerkleTree};
    use winter_utils::Serializable;
    use winter_verifier::{verify, AcceptableOptions};

    use crate::gen::{gen_instance, GenCfg};
    use crate::options::gen_options;
    use crate::{GenAir, GenProver, GenTrace, PubInputs};

    let mut cfg = GenCfg::small();
    cfg.max_log_n = if X::is_rescue() { 7 } else { 9 };
    let long = s.chance(1, 3);
    if long {
        cfg.min_log_n = if X::is_rescue() { 8 } else { 10 };
        cfg.max_log_n = if X::is_rescue() { 9 } else { 12 };
        cfg.max_width = 3;
        cfg.allow_aux = s.chance(1, 4);
        cfg.max_assertions = 4;
        cfg.long_sequence = true;
    }
    let inst = gen_instance::<X::S>(s, &cfg, rec);
    let spec = inst.spec;
    let cube_ok = <X::S as FSpec>::CUBE.is_some();
    let opt = gen_options(s, spec.trace_len, spec.min_blowup(), if long { 1 << 15 } else { 1 << 12 }, cube_ok, rec);
    let options = opt.build();
    // second listing order: a generated permutation of main and auxiliary assertions
    let mut other = spec.clone();
    for list in [&mut other.assertions, &mut other.aux_assertions] {
        let m = list.len();
        for i in (1..m).rev() {
            let j = s.below(i as u64 + 1) as usize;
            list.swap(i, j);
        }
        if m >= 2 && s.bool() {
            list.reverse();
        }
    }
    let changed = other.assertions != spec.assertions || other.aux_assertions != spec.aux_assertions;
    rec.class_if(changed, "e2e:order_changed");
    rec.nontrivial = changed;
    let seq_offset = spec.assertions.iter().any(|a| a.kind == 2 && a.values.len() >= 64 && a.first * spec.min_blowup() >= a.values.len());
    rec.class_if(seq_offset, "e2e:sequence_offset_ge_values");
    rec.set_fp(&(X::NAME, spec.fingerprint(), other.fingerprint(), format!("{opt:?}")));
    rec.describe(|| json!({"instance": X::NAME, "spec": spec.describe(), "second_order": other.assertions.iter().map(|a| (a.column, a.first, a.stride)).collect::<Vec<_>>(), "options": opt.describe()}));
    let ctx = format!("{}; spec {}; options {}", X::NAME, spec.describe(), opt.describe());
    let mut proofs = vec![];
    for sp in [Arc::new(spec.clone()), Arc::new(other.clone())] {
        let prover = GenProver::<X>::new(sp.clone(), options.clone());
        let trace = GenTrace::<X::S>::new(&sp, inst.main.clone());
        match catch(|| crate::prover::prove_sync(&prover, trace)) {
            Ok(Ok(p)) => proofs.push((sp, p)),
            Ok(Err(e)) => return Err(Fail::new("e2e-prover-error", format!("prover returned an error on a satisfying instance: {e} ({ctx})"))),
            Err(_) => {
                rec.class("prover_declined");
                rec.nontrivial = false;
                return Ok(());
            },
        }
    }
    let b0 = proofs[0].1.to_bytes();
    let b1 = proofs[1].1.to_bytes();
    if b0 != b1 {
        let at = b0.iter().zip(b1.iter()).position(|(a, b)| a != b).unwrap_or(b0.len().min(b1.len()));
        return Err(Fail::new("e2e-proof-depends-on-assertion-order", format!("proofs of the same statement differ (first difference at byte {at} of {}) when the AIR lists its assertions in another order ({ctx}; second order {:?})", b0.len(), other.assertions.iter().map(|a| (a.column, a.first, a.stride)).collect::<Vec<_>>())));
    }
    for (sp, proof) in proofs {
        let pi = PubInputs::<X::S>::new(sp.clone());
        match catch(|| verify::<GenAir<X::S>, X::H, DefaultRandomCoin<X::H>, MerkleTree<X::H>>(proof, pi, &AcceptableOptions::OptionSet(vec![options.clone()]))) {
            Ok(Ok(())) => {},
            Ok(Err(e)) => return Err(Fail::new("e2e-honest-proof-rejected", format!("the verifier rejected the proof of a satisfied statement: {e} ({ctx})"))),
            Err(pn) => return Err(Fail::new(format!("e2e-verifier-{}", pn.key()), format!("verifier panicked: {} ({ctx})", pn.message))),
        }
    }
    Ok(())
}
