//! Generator of GenAir instances with satisfying traces.

use std::collections::HashSet;

use vcore::*;
use vfield::{gen_int, Mix, Spec as FSpec};

use crate::spec::*;
use crate::trace::build_main;

#[derive(Clone, Copy, Debug)]
pub struct GenCfg {
    pub min_log_n: u32,
    pub max_log_n: u32,
    pub max_width: usize,
    pub min_width: usize,
    pub allow_aux: bool,
    pub max_degree: usize,
    /// allow the occasional very wide trace (64 / 255 columns)
    pub wide: bool,
    pub max_assertions: usize,
    /// force one sequence assertion of >= 64 values whose first step is spread over the whole stride
    pub long_sequence: bool,
    /// at least one periodic column with a long cycle (n/4 .. n) that a constraint depends on
    pub force_periodic: bool,
}
impl GenCfg {
    pub fn small() -> Self {
        GenCfg { min_log_n: 3, max_log_n: 8, max_width: 8, min_width: 1, allow_aux: true, max_degree: 5, wide: false, max_assertions: 8, long_sequence: false, force_periodic: false }
    }
}

fn gen_term<S: FSpec>(s: &mut Src, width: usize, degree: usize) -> Term {
    // distribute `degree` over 1..=3 variables
    let mut vars: Vec<(usize, u32)> = vec![];
    let mut left = degree as u32;
    while left > 0 {
        let col = s.below(width as u64) as usize;
        let e = if vars.len() >= 2 { left } else { s.range(1, left as u64) as u32 };
        match vars.iter_mut().find(|v| v.0 == col) {
            Some(v) => v.1 += e,
            None => vars.push((col, e)),
        }
        left -= e;
    }
    let mut coef = gen_int::<S>(s);
    if coef == 0 {
        coef = 1;
    }
    Term { coef, vars }
}

fn gen_poly_terms<S: FSpec>(s: &mut Src, width: usize, degree: usize) -> Vec<Term> {
    let mut ts = vec![gen_term::<S>(s, width, degree)];
    let extra = s.below(3);
    for _ in 0..extra {
        let d = s.below(degree as u64 + 1) as usize;
        ts.push(gen_term::<S>(s, width, d));
    }
    ts
}

pub struct Instance<S: FSpec> {
    pub spec: Spec,
    pub main: Vec<Vec<S::B>>,
    pub trace_seed: u64,
}

pub fn gen_instance<S: FSpec>(s: &mut Src, cfg: &GenCfg, rec: &mut Rec) -> Instance<S> {
    let log_n = match s.below(5) {
        0 => cfg.min_log_n,
        _ => s.range(cfg.min_log_n as u64, cfg.max_log_n as u64) as u32,
    };
    let n = 1usize << log_n;
    let main_width = if cfg.wide && s.chance(1, 40) {
        rec.class("wide_trace");
        s.pick_copy(&[64usize, 200, 255])
    } else {
        match s.below(4) {
            0 => cfg.min_width.max(1),
            _ => s.range(cfg.min_width.max(1) as u64, cfg.max_width as u64) as usize,
        }
    };
    // periodic columns
    let nper = if cfg.force_periodic { s.range(1, 3) as usize } else if s.chance(1, 2) { s.range(1, 3) as usize } else { 0 };
    let periodic: Vec<Vec<u128>> = (0..nper)
        .map(|_| {
            let c = if cfg.force_periodic && s.chance(3, 4) { 1usize << s.range(log_n.saturating_sub(2).max(1) as u64, log_n as u64) } else { 1usize << s.range(1, log_n as u64) };
            let mut mix = Mix(s.u64());
            (0..c).map(|i| if i < 2 { gen_int::<S>(s) } else { mix.int::<S>() }).collect()
        })
        .collect();
    rec.class_if(nper > 0, "periodic_column");
    // constraints, one per column
    let mut constraints = vec![];
    let mut keep_tail = vec![];
    let dense = main_width > 16;
    for j in 0..main_width {
        let shape = if cfg.force_periodic && j == 0 { 5 } else if dense { s.below(2) } else { s.below(6) };
        match shape {
            0 => {
                constraints.push(MainConstraint { f: vec![Term { coef: 1, vars: vec![(j, 1)] }], g: vec![], periodic: None });
                keep_tail.push(true);
            },
            1 => {
                constraints.push(MainConstraint { f: gen_poly_terms::<S>(s, main_width, 1), g: vec![], periodic: None });
                keep_tail.push(s.bool());
            },
            2 | 3 => {
                let d = s.range(2, cfg.max_degree as u64) as usize;
                constraints.push(MainConstraint { f: gen_poly_terms::<S>(s, main_width, d), g: vec![], periodic: None });
                keep_tail.push(s.bool());
            },
            _ => {
                if nper == 0 {
                    constraints.push(MainConstraint { f: gen_poly_terms::<S>(s, main_width, 1), g: vec![], periodic: None });
                } else {
                    let dg = s.range(if cfg.force_periodic { 1 } else { 0 }, (cfg.max_degree - 1) as u64) as usize;
                    let df = s.below(dg as u64 + 1) as usize;
                    let k = s.below(nper as u64) as usize;
                    constraints.push(MainConstraint { f: gen_poly_terms::<S>(s, main_width, df), g: gen_poly_terms::<S>(s, main_width, dg), periodic: Some(k) });
                    rec.class("periodic_dependent_constraint");
                }
                keep_tail.push(s.bool());
            },
        }
    }
    // a trace whose columns are all constant has trace polynomials of degree 0, for which the prover
    // asserts (DEEP composition degree != n - 2): keep at least one genuinely moving column
    if constraints.iter().all(|c| c.g.is_empty() && c.f.len() == 1 && c.f[0].coef == 1 && c.f[0].degree() == 1) {
        let mut t = gen_poly_terms::<S>(s, main_width, 1);
        t[0].coef = t[0].coef.max(2);
        t.push(Term { coef: 1 + s.below(1 << 20) as u128, vars: vec![] });
        constraints[0] = MainConstraint { f: t, g: vec![], periodic: None };
    }
    // auxiliary segment
    let (aux, num_rands): (Vec<AuxKind>, usize) = if cfg.allow_aux && s.chance(1, 3) {
        let aw = s.range(1, 4.min(255 - main_width).max(1) as u64) as usize;
        let nr = if s.chance(1, 8) { 0 } else { s.range(1, 4) as usize };
        let kinds = (0..aw)
            .map(|_| {
                if nr > 0 && s.bool() {
                    AuxKind::Product { col: s.below(main_width as u64) as usize, rand: s.below(nr as u64) as usize }
                } else {
                    AuxKind::Sum { c1: s.below(main_width as u64) as usize, c2: s.below(main_width as u64) as usize, rand: s.below(nr.max(1) as u64) as usize }
                }
            })
            .collect();
        rec.class("aux_segment");
        rec.class_if(nr == 0, "aux_zero_rands");
        (kinds, nr)
    } else {
        (vec![], 0)
    };
    let mut spec = Spec {
        field: S::NAME,
        main_width,
        aux,
        num_rands,
        trace_len: n,
        exemptions: 1,
        periodic,
        constraints,
        assertions: vec![],
        aux_assertions: vec![],
        tag: s.u64(),
        meta: if s.chance(1, 4) {
            let ml = s.pick_copy(&[1usize, 6, 7, 8, 20]);
            s.bytes(ml)
        } else {
            vec![]
        },
        keep_tail,
    };
    // exemptions: within the documented bound, with mass on k = max degree and on the bound
    let max_deg_eval = spec
        .constraints
        .iter()
        .map(|c| c.base_degree() * (n - 1) + spec.cycles_of(c).iter().map(|cy| (n / cy) * (cy - 1)).sum::<usize>())
        .max()
        .unwrap();
    let max_deg_eval = if spec.aux.is_empty() { max_deg_eval } else { max_deg_eval.max(2 * (n - 1)) };
    let ce_domain = n * spec.min_blowup();
    let bound = (ce_domain - 1 + n - max_deg_eval).min(n / 2 + 1);
    let d = spec.max_base_degree();
    spec.exemptions = match s.below(6) {
        0 | 1 => 1,
        2 => d.min(bound),
        3 => bound,
        _ => s.range(1, bound.min(6) as u64) as usize,
    }
    .max(1);
    rec.class_if(spec.exemptions > 1, "exemptions_gt_1");
    rec.class_if(spec.exemptions == d && d > 1, "exemptions_eq_degree");
    rec.class_if(spec.exemptions == bound && bound > 1, "exemptions_eq_bound");

    // satisfying trace, then assertions read off it
    let trace_seed = s.u64();
    let main = build_main::<S>(&spec, trace_seed);
    let mut used: HashSet<(usize, usize)> = HashSet::new();
    let nassert = s.range(1, cfg.max_assertions as u64) as usize;
    let to_int = |b: &S::B| S::to_int(b);
    if cfg.long_sequence && n >= 128 {
        // long sequences take the prover's large-polynomial path; the offset of the first step
        // relative to the number of values is what matters there, so spread it over the stride
        let max_len_log = (log_n - 1).min(9);
        let len = if s.bool() { 64 } else { 1usize << s.range(6, max_len_log.max(6) as u64) };
        let stride = n / len;
        let first = match s.below(4) {
            0 => 0,
            1 => stride - 1,
            2 => stride / 2,
            _ => s.below(stride as u64) as usize,
        };
        let col = s.below(main_width as u64) as usize;
        let values: Vec<u128> = (0..len).map(|i| to_int(&main[col][first + stride * i])).collect();
        let a = AssertSpec { column: col, first, stride, values, kind: 2 };
        for st in a.steps(n) {
            used.insert((col, st));
        }
        rec.class("assert_sequence");
        rec.class("sequence_ge_64");
        rec.class_if(first != 0, "sequence_first_nonzero");
        rec.class_if(first * spec.min_blowup() >= len, "sequence_offset_ge_values");
        spec.assertions.push(a);
    }
    let mut tries = 0;
    while spec.assertions.len() < nassert && tries < 4 * nassert + 8 {
        tries += 1;
        let col = s.below(main_width as u64) as usize;
        let kind = s.below(4);
        let cand: Option<AssertSpec> = match kind {
            0 | 1 => {
                let step = match s.below(5) {
                    0 => 0,
                    1 => n - 1,
                    2 => n - spec.exemptions,
                    3 => (n - spec.exemptions).saturating_sub(1),
                    _ => s.below(n as u64) as usize,
                };
                Some(AssertSpec { column: col, first: step, stride: 0, values: vec![to_int(&main[col][step])], kind: 0 })
            },
            2 => {
                // periodic: needs a column that is constant on the asserted steps
                let stride = 1usize << s.range(1, log_n as u64);
                let first = s.below(stride as u64) as usize;
                let v = main[col][first];
                if (0..n / stride).all(|i| main[col][first + stride * i] == v) {
                    Some(AssertSpec { column: col, first, stride, values: vec![to_int(&v)], kind: 1 })
                } else {
                    None
                }
            },
            _ => {
                let len_log = s.range(1, log_n as u64 - 0) as u32;
                let len = 1usize << len_log.min(log_n - 1).max(1);
                let stride = n / len;
                if stride < 2 {
                    None
                } else {
                    let first = if s.bool() { 0 } else { s.below(stride as u64) as usize };
                    let values: Vec<u128> = (0..len).map(|i| to_int(&main[col][first + stride * i])).collect();
                    Some(AssertSpec { column: col, first, stride, values, kind: 2 })
                }
            },
        };
        if let Some(a) = cand {
            let cells: Vec<(usize, usize)> = a.steps(n).into_iter().map(|st| (a.column, st)).collect();
            if cells.iter().all(|c| !used.contains(c)) {
                for c in cells {
                    used.insert(c);
                }
                rec.class(["assert_single", "assert_periodic", "assert_sequence"][a.kind as usize]);
                rec.class_if(a.kind == 2 && a.values.len() >= 64, "sequence_ge_64");
                rec.class_if(a.kind == 2 && a.first != 0, "sequence_first_nonzero");
                spec.assertions.push(a);
            }
        }
    }
    if spec.assertions.is_empty() {
        spec.assertions.push(AssertSpec { column: 0, first: 0, stride: 0, values: vec![to_int(&main[0][0])], kind: 0 });
    }
    // auxiliary assertions: initial values of the running columns
    for (i, kind) in spec.aux.clone().iter().enumerate() {
        if i == 0 || s.bool() {
            let v = match kind {
                AuxKind::Product { .. } => 1,
                AuxKind::Sum { .. } => 0,
            };
            spec.aux_assertions.push(AssertSpec { column: i, first: 0, stride: 0, values: vec![v], kind: 0 });
        }
    }
    // the listing order is a parameter of the instance
    if s.bool() {
        let m = spec.assertions.len();
        for i in (1..m).rev() {
            let j = s.below(i as u64 + 1) as usize;
            spec.assertions.swap(i, j);
        }
    }
    Instance { spec, main, trace_seed }
}
