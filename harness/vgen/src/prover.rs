//! GenProver: `Prover` implementation for GenAir over any (hasher, field) instance, using the
//! default trace LDE, constraint evaluator and constraint commitment.

use std::marker::PhantomData;

use vfield::Spec as FSpec;
use vhash::HS;
use winter_air::{AuxRandElements, ConstraintCompositionCoefficients, EvaluationFrame, PartitionOptions, ProofOptions, TraceInfo};
use winter_crypto::{DefaultRandomCoin, MerkleTree};
use winter_maybe_async::maybe_async;
use winter_math::FieldElement;
use winter_prover::matrix::ColMatrix;
use winter_prover::{
    CompositionPoly, CompositionPolyTrace, DefaultConstraintCommitment, DefaultConstraintEvaluator, DefaultTraceLde, Prover, StarkDomain, Trace, TracePolyTable,
};

use crate::air::{GenAir, PubInputs};
use crate::spec::*;
use crate::trace::build_aux;

pub struct GenTrace<S: FSpec> {
    info: TraceInfo,
    main: ColMatrix<S::B>,
}
impl<S: FSpec> GenTrace<S> {
    pub fn new(spec: &Spec, columns: Vec<Vec<S::B>>) -> Self {
        let info = TraceInfo::new_multi_segment(spec.main_width, spec.aux.len(), spec.num_rands, spec.trace_len, spec.meta.clone());
        GenTrace { info, main: ColMatrix::new(columns) }
    }
    pub fn columns(&self) -> Vec<Vec<S::B>> {
        self.main.columns().map(|c| c.to_vec()).collect()
    }
}
impl<S: FSpec> Trace for GenTrace<S> {
    type BaseField = S::B;
    fn info(&self) -> &TraceInfo {
        &self.info
    }
    fn main_segment(&self) -> &ColMatrix<S::B> {
        &self.main
    }
    fn read_main_frame(&self, row_idx: usize, frame: &mut EvaluationFrame<S::B>) {
        let next = (row_idx + 1) % self.main.num_rows();
        self.main.read_row_into(row_idx, frame.current_mut());
        self.main.read_row_into(next, frame.next_mut());
    }
}

/// a single-cell fault injected into the auxiliary segment while it is built
#[derive(Clone, Copy, Debug)]
pub struct AuxFault {
    pub column: usize,
    pub step: usize,
}

pub struct GenProver<X: HS> {
    pub options: ProofOptions,
    pub spec: SpecRef,
    /// 0 = rows after the last enforced transition keep following the recurrence
    pub aux_garbage_seed: u64,
    pub aux_fault: Option<AuxFault>,
    _x: PhantomData<X>,
}
impl<X: HS> GenProver<X> {
    pub fn new(spec: SpecRef, options: ProofOptions) -> Self {
        GenProver { options, spec, aux_garbage_seed: 0, aux_fault: None, _x: PhantomData }
    }
}

impl<X: HS> Prover for GenProver<X>
where
    X::H: Send + Sync,
{
    type BaseField = <X::S as FSpec>::B;
    type Air = GenAir<X::S>;
    type Trace = GenTrace<X::S>;
    type HashFn = X::H;
    type VC = MerkleTree<X::H>;
    type RandomCoin = DefaultRandomCoin<X::H>;
    type TraceLde<E: FieldElement<BaseField = Self::BaseField>> = DefaultTraceLde<E, X::H, MerkleTree<X::H>>;
    type ConstraintCommitment<E: FieldElement<BaseField = Self::BaseField>> = DefaultConstraintCommitment<E, X::H, MerkleTree<X::H>>;
    type ConstraintEvaluator<'a, E: FieldElement<BaseField = Self::BaseField>> = DefaultConstraintEvaluator<'a, GenAir<X::S>, E>;

    fn get_pub_inputs(&self, _trace: &Self::Trace) -> PubInputs<X::S> {
        PubInputs::new(self.spec.clone())
    }
    fn options(&self) -> &ProofOptions {
        &self.options
    }
    #[maybe_async]
    fn new_trace_lde<E: FieldElement<BaseField = Self::BaseField>>(
        &self,
        trace_info: &TraceInfo,
        main_trace: &ColMatrix<Self::BaseField>,
        domain: &StarkDomain<Self::BaseField>,
        partition_option: PartitionOptions,
    ) -> (Self::TraceLde<E>, TracePolyTable<E>) {
        DefaultTraceLde::new(trace_info, main_trace, domain, partition_option)
    }
    #[maybe_async]
    fn new_evaluator<'a, E: FieldElement<BaseField = Self::BaseField>>(
        &self,
        air: &'a Self::Air,
        aux_rand_elements: Option<AuxRandElements<E>>,
        composition_coefficients: ConstraintCompositionCoefficients<E>,
    ) -> Self::ConstraintEvaluator<'a, E> {
        DefaultConstraintEvaluator::new(air, aux_rand_elements, composition_coefficients)
    }
    #[maybe_async]
    fn build_constraint_commitment<E: FieldElement<BaseField = Self::BaseField>>(
        &self,
        composition_poly_trace: CompositionPolyTrace<E>,
        num_constraint_composition_columns: usize,
        domain: &StarkDomain<Self::BaseField>,
        partition_options: PartitionOptions,
    ) -> (Self::ConstraintCommitment<E>, CompositionPoly<E>) {
        DefaultConstraintCommitment::new(composition_poly_trace, num_constraint_composition_columns, domain, partition_options)
    }
    #[maybe_async]
    fn build_aux_trace<E: FieldElement<BaseField = Self::BaseField>>(&self, main_trace: &Self::Trace, aux_rand_elements: &AuxRandElements<E>) -> ColMatrix<E> {
        let main: Vec<Vec<Self::BaseField>> = main_trace.columns();
        let mut cols = build_aux::<X::S, E>(&self.spec, &main, aux_rand_elements.rand_elements(), self.aux_garbage_seed);
        if let Some(f) = self.aux_fault {
            cols[f.column][f.step] += E::ONE;
        }
        ColMatrix::new(cols)
    }
}


/// Runs `Prover::prove` to completion in every build (the async build polls the future on the spot).
pub fn prove_sync<X: HS>(prover: &GenProver<X>, trace: GenTrace<X::S>) -> Result<winter_air::proof::Proof, winter_prover::ProverError>
where
    X::H: Send + Sync,
{
    #[cfg(feature = "async")]
    {
        use std::future::Future;
        let mut f = std::pin::pin!(prover.prove(trace));
        let waker = std::task::Waker::noop();
        let mut cx = std::task::Context::from_waker(waker);
        loop {
            if let std::task::Poll::Ready(v) = f.as_mut().poll(&mut cx) {
                return v;
            }
        }
    }
    #[cfg(not(feature = "async"))]
    {
        prover.prove(trace)
    }
}
