//! The serialisable description of a GenAir instance.

use std::sync::Arc;

use vcore::*;

#[derive(Clone, Debug, PartialEq, Eq, Hash)]
pub struct Term {
    pub coef: u128,
    /// (column of the current row, exponent)
    pub vars: Vec<(usize, u32)>,
}
impl Term {
    pub fn degree(&self) -> usize {
        self.vars.iter().map(|v| v.1 as usize).sum()
    }
}

/// transition constraint of main column j: next[j] - (F(cur) + p_k * G(cur))
#[derive(Clone, Debug, PartialEq, Eq, Hash)]
pub struct MainConstraint {
    pub f: Vec<Term>,
    pub g: Vec<Term>,
    pub periodic: Option<usize>,
}
impl MainConstraint {
    pub fn base_degree(&self) -> usize {
        let df = self.f.iter().map(|t| t.degree()).max().unwrap_or(0);
        let dg = if self.periodic.is_some() { self.g.iter().map(|t| t.degree()).max().unwrap_or(0) } else { 0 };
        df.max(dg).max(1)
    }
}

#[derive(Clone, Debug, PartialEq, Eq, Hash)]
pub enum AuxKind {
    /// aux' = aux * (r + main[col])
    Product { col: usize, rand: usize },
    /// aux' = aux + r * main[c1] * main[c2]
    Sum { c1: usize, c2: usize, rand: usize },
}

#[derive(Clone, Debug, PartialEq, Eq, Hash)]
pub struct AssertSpec {
    pub column: usize,
    pub first: usize,
    /// 0 for single assertions
    pub stride: usize,
    pub values: Vec<u128>,
    /// 0 single, 1 periodic, 2 sequence
    pub kind: u8,
}
impl AssertSpec {
    /// the steps this assertion constrains, from the documented arithmetic progression
    pub fn steps(&self, n: usize) -> Vec<usize> {
        match self.kind {
            0 => vec![self.first],
            1 => (0..n / self.stride).map(|i| self.first + self.stride * i).collect(),
            _ => (0..self.values.len()).map(|i| self.first + self.stride * i).collect(),
        }
    }
    pub fn value_at(&self, i: usize) -> u128 {
        if self.kind == 2 {
            self.values[i]
        } else {
            self.values[0]
        }
    }
}

#[derive(Clone, Debug, PartialEq, Eq, Hash)]
pub struct Spec {
    pub field: &'static str,
    pub main_width: usize,
    pub aux: Vec<AuxKind>,
    pub num_rands: usize,
    pub trace_len: usize,
    pub exemptions: usize,
    pub periodic: Vec<Vec<u128>>,
    pub constraints: Vec<MainConstraint>,
    pub assertions: Vec<AssertSpec>,
    pub aux_assertions: Vec<AssertSpec>,
    /// feeds only the public-coin seed
    pub tag: u64,
    pub meta: Vec<u8>,
    /// columns whose rows after the last enforced transition keep following the recurrence
    pub keep_tail: Vec<bool>,
}

impl Spec {
    pub fn cycles_of(&self, c: &MainConstraint) -> Vec<usize> {
        match c.periodic {
            Some(k) if !c.g.is_empty() => vec![self.periodic[k].len()],
            _ => vec![],
        }
    }
    /// documented minimum blowup for the declared degrees
    pub fn min_blowup(&self) -> usize {
        let mut m = 2usize;
        for c in &self.constraints {
            let bound = c.base_degree() + self.cycles_of(c).len() - 1;
            m = m.max(bound.max(1).next_power_of_two());
        }
        if !self.aux.is_empty() {
            m = m.max(2);
        }
        m
    }
    pub fn max_base_degree(&self) -> usize {
        let mut d = self.constraints.iter().map(|c| c.base_degree()).max().unwrap_or(1);
        if !self.aux.is_empty() {
            d = d.max(2);
        }
        d
    }
    pub fn fingerprint(&self) -> u64 {
        fnv_of(self)
    }
    /// hash of the statement that does not depend on the order in which assertions are listed
    pub fn statement_fingerprint(&self) -> u64 {
        let mut c = self.clone();
        c.assertions.sort_by_key(|a| (a.column, a.first, a.stride));
        c.aux_assertions.sort_by_key(|a| (a.column, a.first, a.stride));
        fnv_of(&c)
    }
    pub fn describe(&self) -> Value {
        json!({
            "field": self.field, "main_width": self.main_width, "aux_width": self.aux.len(), "aux_rands": self.num_rands,
            "trace_len": self.trace_len, "exemptions": self.exemptions,
            "periodic_cycles": self.periodic.iter().map(|p| p.len()).collect::<Vec<_>>(),
            "constraint_degrees": self.constraints.iter().map(|c| (c.base_degree(), self.cycles_of(c))).collect::<Vec<_>>(),
            "assertions": self.assertions.iter().map(|a| json!({"col": a.column, "first": a.first, "stride": a.stride, "kind": a.kind, "values": a.values.len()})).collect::<Vec<_>>(),
            "aux_assertions": self.aux_assertions.len(), "tag": self.tag, "meta_len": self.meta.len(),
        })
    }
}

pub type SpecRef = Arc<Spec>;
