//! Generator of valid ProofOptions (constructed, not filtered).

use vcore::*;
use winter_air::{BatchingMethod, FieldExtension, ProofOptions};

#[derive(Clone, Debug)]
pub struct OptSpec {
    pub queries: usize,
    pub blowup: usize,
    pub grinding: u32,
    pub ext: u8, // 1, 2, 3
    pub folding: usize,
    pub rem_degree: usize,
    pub batch_c: u8,
    pub batch_d: u8,
    pub partitions: usize,
    pub hash_rate: usize,
}
impl OptSpec {
    pub fn build(&self) -> ProofOptions {
        let ext = match self.ext {
            1 => FieldExtension::None,
            2 => FieldExtension::Quadratic,
            _ => FieldExtension::Cubic,
        };
        let b = |x: u8| match x {
            0 => BatchingMethod::Linear,
            1 => BatchingMethod::Algebraic,
            _ => BatchingMethod::Horner,
        };
        let o = ProofOptions::new(self.queries, self.blowup, self.grinding, ext, self.folding, self.rem_degree, b(self.batch_c), b(self.batch_d));
        if self.partitions == 1 && self.hash_rate == 1 {
            o
        } else {
            o.with_partitions(self.partitions, self.hash_rate)
        }
    }
    pub fn describe(&self) -> Value {
        json!({"queries": self.queries, "blowup": self.blowup, "grinding": self.grinding, "extension": self.ext, "folding": self.folding, "remainder_max_degree": self.rem_degree, "batching": [self.batch_c, self.batch_d], "partitions": [self.partitions, self.hash_rate]})
    }
}

/// does the FRI configuration avoid degree truncation for a DEEP polynomial of degree bound
/// `trace_len - 1` (the verifier documents DegreeTruncation as a deliberate rejection)
pub fn fri_truncates(trace_len: usize, blowup: usize, folding: usize, rem_degree: usize) -> bool {
    let mut domain = trace_len * blowup;
    let mut d = trace_len;
    while domain > (rem_degree + 1) * blowup {
        if d % folding != 0 {
            return true;
        }
        d /= folding;
        domain /= folding;
    }
    false
}

pub fn gen_options(s: &mut Src, trace_len: usize, min_blowup: usize, max_lde: usize, cube_ok: bool, rec: &mut Rec) -> OptSpec {
    let max_blowup_log = ((max_lde / trace_len).max(min_blowup).min(128)).ilog2();
    let min_blowup_log = min_blowup.ilog2();
    let blowup = 1usize << s.range(min_blowup_log as u64, max_blowup_log.max(min_blowup_log) as u64);
    let lde = trace_len * blowup;
    // FRI parameters without degree truncation (constructed: pick folding, then the admissible remainders)
    let (folding, rem_degree) = loop {
        let folding = s.pick_copy(&[2usize, 4, 8, 16]);
        let r = s.range(0, 8);
        let rem = (1usize << r) - 1;
        if !fri_truncates(trace_len, blowup, folding, rem) {
            break (folding, rem);
        }
        rec.class("excluded_degree_truncation");
        if s.exhausted() {
            break (2, 0);
        }
    };
    let queries = match s.below(8) {
        0 => 1,
        1 => 255.min(lde - 1),
        2 => s.range(1, 4) as usize,
        _ => s.range(1, 64.min(lde as u64 - 1)) as usize,
    }
    .min(lde - 1)
    .max(1);
    let ext = match s.below(3) {
        0 => 1,
        1 => 2,
        _ => {
            if cube_ok {
                3
            } else {
                2
            }
        },
    };
    let (partitions, hash_rate) = if s.chance(1, 3) { (s.range(1, 16) as usize, s.pick_copy(&[1usize, 2, 3, 4, 7, 8, 16, 255])) } else { (1, 1) };
    OptSpec { queries, blowup, grinding: if s.chance(1, 3) { s.range(1, 10) as u32 } else { 0 }, ext, folding, rem_degree, batch_c: s.below(3) as u8, batch_d: s.below(3) as u8, partitions, hash_rate }
}
