//! Independent constraint checker (DESIGN.md 3.2): evaluates the spec directly on a trace.
//! Periodic values are `values[s mod c]` (no polynomials, no FFT), assertion cells are enumerated
//! as first + stride * i (no `Assertion::apply`), transitions are evaluated for s < n - k with the
//! next row read at s + 1. It shares only the field operators with winterfell.

use vfield::Spec as FSpec;
use winter_math::FieldElement;

use crate::spec::*;

#[derive(Clone, Debug, PartialEq, Eq)]
pub enum Violation {
    Assertion { aux: bool, index: usize, step: usize },
    Transition { aux: bool, index: usize, step: usize },
}

fn terms<S: FSpec>(ts: &[Term], row: &[S::B]) -> S::B {
    let mut acc = S::B::ZERO;
    for t in ts {
        let mut m = S::from_int(t.coef % S::P);
        for (col, exp) in &t.vars {
            let mut p = S::B::ONE;
            for _ in 0..*exp {
                p *= row[*col];
            }
            m *= p;
        }
        acc += m;
    }
    acc
}

pub fn check_trace<S: FSpec, E: FieldElement<BaseField = S::B>>(spec: &Spec, main: &[Vec<S::B>], aux: Option<(&[Vec<E>], &[E])>, max_violations: usize) -> Vec<Violation> {
    let n = spec.trace_len;
    let k = spec.exemptions;
    let mut out = vec![];
    // assertions on the main segment
    for (idx, a) in spec.assertions.iter().enumerate() {
        for (i, step) in a.steps(n).into_iter().enumerate() {
            if main[a.column][step] != S::from_int(a.value_at(i) % S::P) {
                out.push(Violation::Assertion { aux: false, index: idx, step });
                if out.len() >= max_violations {
                    return out;
                }
            }
        }
    }
    if let Some((auxc, _)) = aux {
        for (idx, a) in spec.aux_assertions.iter().enumerate() {
            for (i, step) in a.steps(n).into_iter().enumerate() {
                if auxc[a.column][step] != E::from(S::from_int(a.value_at(i) % S::P)) {
                    out.push(Violation::Assertion { aux: true, index: idx, step });
                    if out.len() >= max_violations {
                        return out;
                    }
                }
            }
        }
    }
    // transitions on every non-exempt step
    for s in 0..n - k {
        let row: Vec<S::B> = main.iter().map(|c| c[s]).collect();
        for (j, c) in spec.constraints.iter().enumerate() {
            let mut rhs = terms::<S>(&c.f, &row);
            if let Some(p) = c.periodic {
                if !c.g.is_empty() {
                    let cyc = &spec.periodic[p];
                    rhs += S::from_int(cyc[s % cyc.len()] % S::P) * terms::<S>(&c.g, &row);
                }
            }
            if main[j][s + 1] != rhs {
                out.push(Violation::Transition { aux: false, index: j, step: s });
                if out.len() >= max_violations {
                    return out;
                }
            }
        }
        if let Some((auxc, rands)) = aux {
            for (i, kind) in spec.aux.iter().enumerate() {
                let want = match kind {
                    AuxKind::Product { col, rand } => auxc[i][s] * (rands[*rand] + E::from(main[*col][s])),
                    AuxKind::Sum { c1, c2, rand } => {
                        let r = rands.get(*rand).copied().unwrap_or(E::ONE);
                        auxc[i][s] + r * E::from(main[*c1][s]) * E::from(main[*c2][s])
                    },
                };
                if auxc[i][s + 1] != want {
                    out.push(Violation::Transition { aux: true, index: i, step: s });
                    if out.len() >= max_violations {
                        return out;
                    }
                }
            }
        }
    }
    out
}
