//! Satisfying traces for a Spec (by construction) and the auxiliary segment builder.

use vfield::{Mix, Spec as FSpec};
use winter_math::FieldElement;

use crate::spec::*;

fn eval_terms_int<S: FSpec>(terms: &[Term], cur: &[S::B]) -> S::B {
    let mut acc = S::B::ZERO;
    for t in terms {
        let mut m = S::from_int(t.coef % S::P);
        for (col, exp) in &t.vars {
            for _ in 0..*exp {
                m *= cur[*col];
            }
        }
        acc += m;
    }
    acc
}

/// columns of a main trace satisfying the spec's transition constraints on all non-exempt steps
pub fn build_main<S: FSpec>(spec: &Spec, seed: u64) -> Vec<Vec<S::B>> {
    let n = spec.trace_len;
    let w = spec.main_width;
    let k = spec.exemptions;
    let mut mix = Mix(seed);
    let mut cols: Vec<Vec<S::B>> = vec![vec![S::B::ZERO; n]; w];
    let mut cur: Vec<S::B> = (0..w).map(|_| S::from_int(mix.int::<S>())).collect();
    for j in 0..w {
        cols[j][0] = cur[j];
    }
    for s in 0..n - 1 {
        let mut next = vec![S::B::ZERO; w];
        for (j, c) in spec.constraints.iter().enumerate() {
            let enforced = s + k < n; // s <= n - k - 1
            if enforced || spec.keep_tail[j] {
                let mut v = eval_terms_int::<S>(&c.f, &cur);
                if let Some(p) = c.periodic {
                    if !c.g.is_empty() {
                        let cyc = &spec.periodic[p];
                        v += S::from_int(cyc[s % cyc.len()] % S::P) * eval_terms_int::<S>(&c.g, &cur);
                    }
                }
                next[j] = v;
            } else {
                next[j] = S::from_int(mix.int::<S>());
            }
        }
        for j in 0..w {
            cols[j][s + 1] = next[j];
        }
        cur = next;
    }
    cols
}

/// auxiliary columns for the given random elements; rows after the last enforced transition are
/// filled with values derived from `garbage_seed` (0 = keep following the recurrence)
pub fn build_aux<S: FSpec, E: FieldElement<BaseField = S::B>>(spec: &Spec, main: &[Vec<S::B>], rands: &[E], garbage_seed: u64) -> Vec<Vec<E>> {
    let n = spec.trace_len;
    let k = spec.exemptions;
    let mut mix = Mix(garbage_seed);
    let mut cols = vec![vec![E::ZERO; n]; spec.aux.len()];
    for (i, kind) in spec.aux.iter().enumerate() {
        cols[i][0] = match kind {
            AuxKind::Product { .. } => E::ONE,
            AuxKind::Sum { .. } => E::ZERO,
        };
        for s in 0..n - 1 {
            let enforced = s + k < n;
            cols[i][s + 1] = if enforced || garbage_seed == 0 {
                match kind {
                    AuxKind::Product { col, rand } => cols[i][s] * (rands[*rand] + E::from(main[*col][s])),
                    AuxKind::Sum { c1, c2, rand } => {
                        let r = rands.get(*rand).copied().unwrap_or(E::ONE);
                        cols[i][s] + r * E::from(main[*c1][s]) * E::from(main[*c2][s])
                    },
                }
            } else {
                mix.elem::<S, E>().0
            };
        }
    }
    cols
}
