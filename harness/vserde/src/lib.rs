//! C26 (primitive encodings) and C27 (ReadAdapter ≡ SliceReader).

use vcore::*;

pub mod c26;
pub mod c27;

pub fn props() -> Vec<Prop> {
    vec![c26::prop(), c27::prop()]
}
