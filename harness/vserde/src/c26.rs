//! C26 — primitive encodings round-trip and reject malformed input.
//!
//! Oracle: an independent reference encoder written from the documented formats (little-endian
//! integers, vint64 size values, 1-byte booleans, tag+value options, length-prefixed
//! collections), the decode∘encode identity with exact consumption (sentinel suffix), and
//! "error, never panic" for every truncation / corruption.

use std::collections::{BTreeMap, BTreeSet};
use std::fmt::Debug;

use vcore::*;
use winter_utils::{ByteReader, Deserializable, DeserializationError, Serializable, SliceReader};

pub fn prop() -> Prop {
    Prop {
        id: "C26",
        level: "exploration",
        rule: "cases = (type from a 34-type grammar instance list, generated value) with usize values concentrated on every vint64 length boundary; a case is non-trivial when its encoding has >= 2 bytes; distinct = hash of (type, reference encoding). Malformed cases = mutated / truncated / hostile-length encodings; non-trivial when the input differs from a valid encoding.",
        assumptions: vec![
            "release profile (no debug assertions / overflow checks), 64-bit target: 'size value does not fit the platform' is unreachable because u64 = usize",
            "the reference encoder is written from the rustdoc of ByteWriter (LE integers, vint64) and shares no code with winter-utils",
            "Vec<()> with hostile lengths is not generated: the unit type is not among the types the property lists",
        ],
        subs: vec![
            Sub::gen("roundtrip", roundtrip, 96, 400_000, 8_000_000),
            Sub::exhaustive("vint_boundaries", vint_boundaries),
            Sub::gen("malformed", malformed, 96, 200_000, 4_000_000).isolated(5_000, false),
            Sub::gen("slice_reader_ops", slice_reader_ops, 64, 300_000, 4_000_000),
        ],
        required: vec![
            "vint_len_1", "vint_len_2", "vint_len_3", "vint_len_4", "vint_len_5", "vint_len_6", "vint_len_7",
            "vint_len_8", "vint_len_9", "vint9_all_truncations", "invalid_bool", "invalid_utf8", "hostile_length",
            "len_near_usize_max", "multibyte_string",
        ],
        required_thorough: vec![],
    }
}

// REFERENCE ENCODER + GENERATORS
// ================================================================================================

pub fn ref_vint_len(v: u64) -> usize {
    let bits = 64 - v.leading_zeros() as usize;
    if bits <= 7 {
        1
    } else if bits > 56 {
        9
    } else {
        bits.div_ceil(7)
    }
}

pub fn ref_vint(v: u64, out: &mut Vec<u8>) {
    let len = ref_vint_len(v);
    if len == 9 {
        out.push(0);
        out.extend_from_slice(&v.to_le_bytes());
    } else {
        // value shifted left by `len` bits with a single 1 marker at bit len-1
        let enc: u128 = ((v as u128) << len) | (1u128 << (len - 1));
        out.extend_from_slice(&enc.to_le_bytes()[..len]);
    }
}

trait G: Sized + Serializable + Deserializable + PartialEq + Debug {
    fn gen(s: &mut Src, depth: u32) -> Self;
    fn renc(&self, out: &mut Vec<u8>);
}

fn gen_usize(s: &mut Src) -> usize {
    match s.below(10) {
        0..=4 => {
            // vint boundary: 2^(7k) + {-1,0,1}
            let k = s.range(1, 9);
            let d = s.below(3);
            let base = if k == 9 { 1u64 << 63 } else { 1u64 << (7 * k) };
            (match d {
                0 => base - 1,
                1 => base,
                _ => base + 1,
            }) as usize
        },
        5 => s.below(300) as usize,
        6 => (u64::MAX - s.below(3)) as usize,
        7 => {
            let k = s.below(64);
            ((1u64 << k) | s.below(1 << k.min(63))) as usize
        },
        _ => s.u64() as usize,
    }
}

macro_rules! impl_int {
    ($t:ty, $draw:expr) => {
        impl G for $t {
            fn gen(s: &mut Src, _d: u32) -> Self {
                let f: fn(&mut Src) -> $t = $draw;
                f(s)
            }
            fn renc(&self, out: &mut Vec<u8>) {
                out.extend_from_slice(&self.to_le_bytes());
            }
        }
    };
}
impl_int!(u8, |s| s.u64_biased() as u8);
impl_int!(u16, |s| s.u64_biased() as u16);
impl_int!(u32, |s| s.u64_biased() as u32);
impl_int!(u64, |s| s.u64_biased());
impl_int!(u128, |s| ((s.u64_biased() as u128) << 64) | s.u64_biased() as u128);

impl G for usize {
    fn gen(s: &mut Src, _d: u32) -> Self {
        gen_usize(s)
    }
    fn renc(&self, out: &mut Vec<u8>) {
        ref_vint(*self as u64, out)
    }
}
/// booleans have no Serializable impl of their own: they are written with write_bool / read_bool
#[derive(Debug, PartialEq, Eq, PartialOrd, Ord, Clone, Copy)]
pub struct Bool(bool);
impl Serializable for Bool {
    fn write_into<W: winter_utils::ByteWriter>(&self, target: &mut W) {
        target.write_bool(self.0)
    }
}
impl Deserializable for Bool {
    fn read_from<R: ByteReader>(source: &mut R) -> Result<Self, DeserializationError> {
        source.read_bool().map(Bool)
    }
}
impl G for Bool {
    fn gen(s: &mut Src, _d: u32) -> Self {
        Bool(s.bool())
    }
    fn renc(&self, out: &mut Vec<u8>) {
        out.push(if self.0 { 1 } else { 0 })
    }
}
impl G for () {
    fn gen(_s: &mut Src, _d: u32) -> Self {}
    fn renc(&self, _out: &mut Vec<u8>) {}
}

impl<T: G> G for Option<T> {
    fn gen(s: &mut Src, d: u32) -> Self {
        if s.chance(2, 3) {
            Some(T::gen(s, d + 1))
        } else {
            None
        }
    }
    fn renc(&self, out: &mut Vec<u8>) {
        match self {
            Some(v) => {
                out.push(1);
                v.renc(out)
            },
            None => out.push(0),
        }
    }
}
impl<T: G, const C: usize> G for [T; C] {
    fn gen(s: &mut Src, d: u32) -> Self {
        core::array::from_fn(|_| T::gen(s, d + 1))
    }
    fn renc(&self, out: &mut Vec<u8>) {
        for x in self {
            x.renc(out)
        }
    }
}
fn gen_len(s: &mut Src, d: u32) -> usize {
    if d == 0 && s.chance(1, 8) {
        s.pick_copy(&[127usize, 128, 129, 300])
    } else {
        s.below(if d == 0 { 8 } else { 4 }) as usize
    }
}
impl<T: G> G for Vec<T> {
    fn gen(s: &mut Src, d: u32) -> Self {
        let n = gen_len(s, d);
        (0..n).map(|_| T::gen(s, d + 1)).collect()
    }
    fn renc(&self, out: &mut Vec<u8>) {
        ref_vint(self.len() as u64, out);
        for x in self {
            x.renc(out)
        }
    }
}
impl<K: G + Ord, V: G> G for BTreeMap<K, V> {
    fn gen(s: &mut Src, d: u32) -> Self {
        let n = gen_len(s, d.max(1));
        (0..n).map(|_| (K::gen(s, d + 1), V::gen(s, d + 1))).collect()
    }
    fn renc(&self, out: &mut Vec<u8>) {
        ref_vint(self.len() as u64, out);
        for (k, v) in self {
            k.renc(out);
            v.renc(out)
        }
    }
}
impl<T: G + Ord> G for BTreeSet<T> {
    fn gen(s: &mut Src, d: u32) -> Self {
        let n = gen_len(s, d.max(1));
        (0..n).map(|_| T::gen(s, d + 1)).collect()
    }
    fn renc(&self, out: &mut Vec<u8>) {
        ref_vint(self.len() as u64, out);
        for x in self {
            x.renc(out)
        }
    }
}
const CHARS: &[char] = &[
    'a', 'Z', '0', ' ', '\u{0}', '\u{7f}', '\u{80}', 'é', 'ß', '\u{7ff}', '\u{800}', '中', '\u{ffff}', '\u{10000}', '😀',
    '\u{10ffff}',
];
impl G for String {
    fn gen(s: &mut Src, d: u32) -> Self {
        let n = gen_len(s, d);
        (0..n).map(|_| s.pick_copy(CHARS)).collect()
    }
    fn renc(&self, out: &mut Vec<u8>) {
        ref_vint(self.len() as u64, out);
        out.extend_from_slice(self.as_bytes());
    }
}
macro_rules! impl_tuple {
    ($($n:ident : $i:tt),+) => {
        impl<$($n: G),+> G for ($($n,)+) {
            fn gen(s: &mut Src, d: u32) -> Self { ($($n::gen(s, d + 1),)+) }
            fn renc(&self, out: &mut Vec<u8>) { $(self.$i.renc(out);)+ }
        }
    };
}
impl_tuple!(A:0);
impl_tuple!(A:0, B:1);
impl_tuple!(A:0, B:1, C:2);
impl_tuple!(A:0, B:1, C:2, D:3);
impl_tuple!(A:0, B:1, C:2, D:3, E:4);
impl_tuple!(A:0, B:1, C:2, D:3, E:4, F:5);

// ROUND TRIP
// ================================================================================================

const SENTINEL: [u8; 3] = [0xA5, 0x5A, 0xC3];

fn hex(b: &[u8]) -> String {
    let mut s = String::new();
    for x in b.iter().take(48) {
        s.push_str(&format!("{x:02x}"));
    }
    if b.len() > 48 {
        s.push_str(&format!("..(+{})", b.len() - 48));
    }
    s
}

fn rt<T: G>(name: &'static str, s: &mut Src, rec: &mut Rec) -> CaseResult {
    let v = T::gen(s, 0);
    let mut reference = Vec::new();
    v.renc(&mut reference);
    rec.set_fp(&(name, &reference));
    rec.describe(|| json!({"type": name, "value": format!("{v:?}").chars().take(160).collect::<String>(), "encoding": hex(&reference)}));
    rec.class(&format!("type:{name}"));
    let bytes = match catch(|| v.to_bytes()) {
        Ok(b) => b,
        Err(p) => return Err(Fail::new(p.key(), format!("to_bytes panicked on {name}: {}", p.message))),
    };
    ensure!(bytes == reference, format!("encoding-differs-from-reference:{name}"), "{name}: encoded {} but the documented format gives {}", hex(&bytes), hex(&reference));
    if bytes.len() >= 2 {
        rec.nontrivial();
    }

    // decode with a sentinel suffix: exact consumption
    let mut with = bytes.clone();
    with.extend_from_slice(&SENTINEL);
    let decoded = catch(|| {
        let mut r = SliceReader::new(&with);
        let d = T::read_from(&mut r);
        let rest = r.read_slice(3).map(|x| x.to_vec());
        let more = r.has_more_bytes();
        (d, rest, more)
    });
    let (d, rest, more) = match decoded {
        Ok(x) => x,
        Err(p) => return Err(Fail::new(p.key(), format!("{name}: decoding own encoding panicked: {}", p.message))),
    };
    match d {
        Ok(d) => ensure!(d == v, format!("roundtrip-value-differs:{name}"), "{name}: decoded {d:?} from encoding of {v:?}"),
        Err(e) => return Err(Fail::new(format!("roundtrip-decode-error:{name}"), format!("{name}: own encoding {} rejected: {e}", hex(&bytes)))),
    }
    ensure!(rest == Ok(SENTINEL.to_vec()) && !more, format!("roundtrip-consumption:{name}"), "{name}: decoder did not consume exactly the encoding (sentinel read {rest:?}, more={more})");
    // without sentinel the reader must be at the end
    {
        let mut r = SliceReader::new(&bytes);
        let d = catch(|| T::read_from(&mut r)).map_err(|p| Fail::new(p.key(), format!("{name}: decoding own encoding (nothing after it) panicked: {}", p.message)))?;
        match d {
            Ok(d) => ensure!(d == v, format!("roundtrip-value-differs:{name}"), "{name}: decoded {d:?} from the exact encoding of {v:?}"),
            Err(e) => return Err(Fail::new(format!("roundtrip-decode-error:{name}"), format!("{name}: own encoding {} (with nothing after it) rejected: {e}", hex(&bytes)))),
        }
        ensure!(!r.has_more_bytes(), format!("roundtrip-leftover:{name}"), "{name}: bytes left over after decoding own encoding");
    }
    // every proper prefix must be an error, never a panic (all offsets up to 64 bytes, else sampled)
    let n = bytes.len();
    let offsets: Vec<usize> = if n <= 64 { (0..n).collect() } else { (0..32).chain(n - 32..n).collect() };
    for cut in offsets {
        let r = catch(|| T::read_from(&mut SliceReader::new(&bytes[..cut])));
        match r {
            Err(p) => return Err(Fail::new(p.key(), format!("{name}: decoding a {cut}-byte prefix of {} panicked: {}", hex(&bytes), p.message))),
            Ok(Ok(_)) => return Err(Fail::new(format!("truncation-accepted:{name}"), format!("{name}: {cut}-byte prefix of {} decoded successfully", hex(&bytes)))),
            Ok(Err(_)) => {},
        }
    }
    rec.weight = 2 + n.min(64) as u64;
    Ok(())
}

fn rt_usize(s: &mut Src, rec: &mut Rec) -> CaseResult {
    let v = gen_usize(s);
    let len = ref_vint_len(v as u64);
    rec.class(&format!("vint_len_{len}"));
    let bytes = v.to_bytes();
    ensure!(bytes.len() == len, "vint-length", "usize {v} encoded in {} bytes, documented length is {len}", bytes.len());
    ensure!(v.get_size_hint() == len, "vint-size-hint", "usize {v}: get_size_hint() = {} but encoding has {len} bytes", v.get_size_hint());
    if len == 9 {
        rec.class("vint9_all_truncations");
    }
    // re-use the generic path with the same value: rebuild a source that yields it
    let mut reference = vec![];
    ref_vint(v as u64, &mut reference);
    ensure!(bytes == reference, "encoding-differs-from-reference:usize", "usize {v}: {} vs reference {}", hex(&bytes), hex(&reference));
    let d = catch(|| usize::read_from(&mut SliceReader::new(&bytes)));
    match d {
        Ok(Ok(d)) => ensure!(d == v, "roundtrip-value-differs:usize", "usize {v} decoded as {d}"),
        Ok(Err(e)) => return Err(Fail::new("roundtrip-decode-error:usize", format!("usize {v}: {e}"))),
        Err(p) => return Err(Fail::new(p.key(), p.message)),
    }
    for cut in 0..bytes.len() {
        match catch(|| usize::read_from(&mut SliceReader::new(&bytes[..cut]))) {
            Ok(Err(_)) => {},
            Ok(Ok(x)) => return Err(Fail::new("truncation-accepted:usize", format!("{cut}-byte prefix of vint {} decoded to {x}", hex(&bytes)))),
            Err(p) => return Err(Fail::new(p.key(), p.message)),
        }
    }
    rec.set_fp(&("usize", v));
    rec.describe(|| json!({"type": "usize", "value": v, "encoding": hex(&bytes)}));
    if len >= 2 {
        rec.nontrivial();
    }
    Ok(())
}

type Nested = (Vec<Option<(usize, String)>>, BTreeMap<u8, [u16; 2]>, Option<BTreeSet<usize>>);

macro_rules! type_table {
    ($mac:ident) => {
        $mac! {
            u8, u16, u32, u64, u128, usize, Bool,
            (), [(); 3], ((),), Option<()>, [[u8; 0]; 2], ((), u8),
            Option<u64>, Option<Option<u8>>, Option<Vec<u16>>, Option<usize>,
            [u8; 0], [u8; 1], [u32; 5], [usize; 3], [Option<u8>; 4], [String; 2],
            Vec<u8>, Vec<usize>, Vec<Vec<u8>>, Vec<Option<u32>>, Vec<String>, Vec<(u8, usize)>, Vec<Bool>,
            BTreeMap<u32, String>, BTreeMap<usize, Vec<u8>>, BTreeSet<u64>, BTreeSet<String>,
            String,
            (u8,), (u8, u16), (Bool, usize, String), (u8, u16, u32, u64), (u128, Bool, Option<u8>, String, usize),
            (u8, u16, u32, u64, u128, usize),
            Nested
        }
    };
}

macro_rules! rt_table {
    ($($t:ty),+) => {
        const RT: &[(&str, fn(&'static str, &mut Src, &mut Rec) -> CaseResult)] = &[$((stringify!($t), rt::<$t>)),+];
        const MAL: &[(&str, fn(&'static str, &mut Src, &mut Rec) -> CaseResult)] = &[$((stringify!($t), mal::<$t>)),+];
    };
}
type_table!(rt_table);

fn roundtrip(s: &mut Src, rec: &mut Rec) -> CaseResult {
    if s.chance(1, 4) {
        return rt_usize(s, rec);
    }
    let (name, f) = RT[s.below(RT.len() as u64) as usize];
    let r = f(name, s, rec);
    if name == "String" || name.contains("String") {
        rec.class("multibyte_string");
    }
    r
}

/// every vint64 boundary, exhaustively: 2^(7k)-1, 2^(7k), 2^(7k)+1 for k = 1..9, 0, 2^63, MAX, and
/// every power of two ± 1
fn vint_boundaries(ex: &mut Ex) {
    let mut values: Vec<u64> = vec![0, 1, u64::MAX, u64::MAX - 1, 1 << 63, (1 << 63) - 1, (1 << 63) + 1];
    for k in 0..64u32 {
        let b = 1u64 << k;
        values.extend_from_slice(&[b.wrapping_sub(1), b, b + 1]);
    }
    values.sort();
    values.dedup();
    ex.space(json!({"values": values.len(), "what": "0, MAX, every 2^k-1, 2^k, 2^k+1"}));
    for v in values {
        let want_len = ref_vint_len(v);
        let bytes = (v as usize).to_bytes();
        let mut reference = vec![];
        ref_vint(v, &mut reference);
        ex.case(v, want_len >= 2);
        ex.class(&format!("vint_len_{want_len}"), 1);
        if bytes != reference || (v as usize).get_size_hint() != want_len {
            ex.fail("vint-encoding", format!("usize {v}: encoded {} (hint {}), documented {}", hex(&bytes), (v as usize).get_size_hint(), hex(&reference)), json!({"value": v}));
            continue;
        }
        match catch(|| usize::read_from(&mut SliceReader::new(&bytes))) {
            Ok(Ok(d)) if d as u64 == v => {},
            other => ex.fail("vint-roundtrip", format!("usize {v}: decoded {other:?}"), json!({"value": v})),
        }
        // all non-minimal / other-length encodings of the same value must decode to the value or error, never panic
        for cut in 0..bytes.len() {
            match catch(|| usize::read_from(&mut SliceReader::new(&bytes[..cut]))) {
                Ok(Err(_)) => {},
                other => ex.fail("vint-truncation", format!("usize {v} prefix {cut}: {other:?}"), json!({"value": v, "cut": cut})),
            }
        }
        if want_len == 9 {
            ex.class("vint9_all_truncations", 1);
        }
    }
    ex.sample(json!({"value": 72057594037927936u64, "encoding": hex(&(72057594037927936usize).to_bytes())}));
}

// MALFORMED INPUT
// ================================================================================================

fn hostile_vint(s: &mut Src, remaining: usize) -> Vec<u8> {
    let v: u64 = match s.below(10) {
        0 => remaining as u64 + 1,
        1 => 1 << 32,
        2 => (1 << 56) - 1,
        3 => 1 << 56,
        4 => 1 << 63,
        5 => u64::MAX,
        6 => u64::MAX / 8 + 1,
        7 => (1u64 << 33) + s.below(1 << 20),
        8 => 1u64 << s.range(20, 63),
        _ => s.u64() | (1 << 40),
    };
    let mut out = vec![];
    ref_vint(v, &mut out);
    out
}

fn mal<T: G>(name: &'static str, s: &mut Src, rec: &mut Rec) -> CaseResult {
    let v = T::gen(s, 1);
    let mut valid = vec![];
    v.renc(&mut valid);
    let mode = s.below(5);
    let mut input = valid.clone();
    match mode {
        0 => {
            // single byte substitution
            if !input.is_empty() {
                let i = s.below(input.len() as u64) as usize;
                input[i] = s.u8();
            }
        },
        1 => {
            // hostile length spliced at an offset (beginning with probability 1/2)
            let at = if s.bool() || input.is_empty() { 0 } else { s.below(input.len() as u64 + 1) as usize };
            let hv = hostile_vint(s, input.len() - at);
            let drop = s.below(3) as usize;
            let tail: Vec<u8> = input[(at + drop).min(input.len())..].to_vec();
            input.truncate(at);
            input.extend_from_slice(&hv);
            input.extend_from_slice(&tail);
            rec.class("hostile_length_any_type");
        },
        2 => {
            let n = s.below(40) as usize;
            input = s.bytes(n);
        },
        3 => {
            // truncation + garbage
            let cut = s.below(input.len() as u64 + 1) as usize;
            input.truncate(cut);
            let n = s.below(4) as usize;
            input.extend(s.bytes(n));
        },
        _ => {
            // duplicate a span
            if !input.is_empty() {
                let a = s.below(input.len() as u64) as usize;
                let b = a + s.below((input.len() - a) as u64 + 1) as usize;
                let span = input[a..b].to_vec();
                let at = s.below(input.len() as u64 + 1) as usize;
                input.splice(at..at, span);
            }
        },
    }
    rec.set_fp(&(name, &input));
    rec.describe(|| json!({"type": name, "mode": mode, "input": hex(&input)}));
    if input != valid {
        rec.nontrivial();
    }
    let r = catch(|| {
        let mut r = SliceReader::new(&input);
        T::read_from(&mut r).map(|v| {
            let mut re = vec![];
            v.renc(&mut re);
            re
        })
    });
    match r {
        Err(p) => Err(Fail::new(p.key(), format!("{name}: decoding {} panicked at {}: {}", hex(&input), p.location, p.message))),
        Ok(Ok(re)) => {
            rec.class("malformed_decoded_ok");
            // whatever decoded must itself round-trip
            let again = catch(|| T::read_from(&mut SliceReader::new(&re)).map(|v| {
                let mut x = vec![];
                v.renc(&mut x);
                x
            }));
            match again {
                Ok(Ok(x)) if x == re => Ok(()),
                other => Err(Fail::new(format!("malformed-decoded-unstable:{name}"), format!("{name}: value decoded from {} does not round-trip: {other:?}", hex(&input)))),
            }
        },
        Ok(Err(_)) => {
            rec.class("malformed_rejected");
            Ok(())
        },
    }
}

fn expect_err<T: Deserializable + Debug>(what: &str, input: &[u8]) -> CaseResult {
    match catch(|| T::read_from(&mut SliceReader::new(input))) {
        Err(p) => Err(Fail::new(p.key(), format!("{what}: decoding {} panicked at {}: {}", hex(input), p.location, p.message))),
        Ok(Ok(v)) => Err(Fail::new(format!("malformed-accepted:{what}"), format!("{what}: {} decoded to {:?}", hex(input), v))),
        Ok(Err(_)) => Ok(()),
    }
}

fn malformed(s: &mut Src, rec: &mut Rec) -> CaseResult {
    match s.below(8) {
        0 => {
            // invalid booleans, alone and inside Option / tuples
            let b = s.range(2, 255) as u8;
            rec.class("invalid_bool");
            rec.nontrivial();
            rec.set_fp(&("bool", b));
            rec.describe(|| json!({"kind": "invalid_bool", "byte": b}));
            expect_err::<Bool>("bool", &[b])?;
            expect_err::<Option<u8>>("Option<u8>", &[b, 7])?;
            expect_err::<(u8, Bool)>("(u8,bool)", &[1, b])?;
            let ok = catch(|| SliceReader::new(&[b]).read_bool());
            match ok {
                Ok(Err(DeserializationError::InvalidValue(_))) => Ok(()),
                other => Err(Fail::new("invalid-bool-not-invalidvalue", format!("read_bool({b}) = {other:?}"))),
            }
        },
        1 => {
            // invalid UTF-8
            const BAD: &[&[u8]] = &[&[0xff], &[0xc0, 0x80], &[0xe2, 0x82], &[0xed, 0xa0, 0x80], &[0xf4, 0x90, 0x80, 0x80], &[0x80], &[b'a', 0xc3]];
            let bad = *s.pick(BAD);
            let mut input = vec![];
            let pre = s.below(4) as usize;
            let body: Vec<u8> = std::iter::repeat(b'x').take(pre).chain(bad.iter().copied()).collect();
            ref_vint(body.len() as u64, &mut input);
            input.extend_from_slice(&body);
            rec.class("invalid_utf8");
            rec.nontrivial();
            rec.set_fp(&("utf8", &input));
            rec.describe(|| json!({"kind": "invalid_utf8", "input": hex(&input)}));
            expect_err::<String>("String", &input)?;
            expect_err::<Vec<String>>("Vec<String>", &[&[3u8][..], &input[..]].concat())?;
            match catch(|| SliceReader::new(&body).read_string(body.len())) {
                Ok(Err(_)) => Ok(()),
                other => Err(Fail::new("invalid-utf8-read_string", format!("read_string = {other:?}"))),
            }
        },
        2 | 3 => {
            // length prefix larger than what follows, for every length-prefixed type
            let tail_len = s.below(12) as usize;
            let hv = hostile_vint(s, tail_len);
            let mut input = hv.clone();
            input.extend(s.bytes(tail_len));
            rec.class("hostile_length");
            rec.nontrivial();
            rec.set_fp(&("hostile", &input));
            rec.describe(|| json!({"kind": "hostile_length", "input": hex(&input)}));
            let which = s.below(9);
            match which {
                0 => expect_err::<Vec<u8>>("Vec<u8>", &input),
                1 => expect_err::<Vec<u64>>("Vec<u64>", &input),
                2 => expect_err::<String>("String", &input),
                3 => expect_err::<BTreeSet<u32>>("BTreeSet<u32>", &input),
                4 => expect_err::<BTreeMap<u8, u8>>("BTreeMap<u8,u8>", &input),
                5 => expect_err::<Vec<Vec<u8>>>("Vec<Vec<u8>>", &input),
                6 => expect_err::<Vec<(u8, u16)>>("Vec<(u8,u16)>", &input),
                7 => expect_err::<Vec<u128>>("Vec<u128>", &input),
                _ => expect_err::<Option<Vec<usize>>>("Option<Vec<usize>>", &[&[1u8][..], &input[..]].concat()),
            }
        },
        _ => {
            let (name, f) = MAL[s.below(MAL.len() as u64) as usize];
            f(name, s, rec)
        },
    }
}

// SLICE READER OPERATIONS WITH ARBITRARY LENGTHS
// ================================================================================================

fn slice_reader_ops(s: &mut Src, rec: &mut Rec) -> CaseResult {
    let n = s.below(24) as usize;
    let data = s.bytes(n);
    let nops = s.range(1, 6);
    let mut pos = 0usize; // model
    let mut r = SliceReader::new(&data);
    let mut log = vec![];
    for _ in 0..nops {
        let k: usize = match s.below(8) {
            0 => s.below(n as u64 + 3) as usize,
            1 => usize::MAX,
            2 => usize::MAX - pos,
            3 => (usize::MAX - pos).wrapping_add(1),
            4 => (usize::MAX - pos).wrapping_add(1 + s.below(n as u64 + 1) as usize),
            5 => usize::MAX / 2 + s.below(4) as usize,
            6 => (n - pos.min(n)) + s.below(2) as usize,
            _ => s.u64() as usize,
        };
        if k > usize::MAX - 64 {
            rec.class("len_near_usize_max");
        }
        let op = s.below(4);
        let fits = k <= n - pos;
        log.push(json!({"op": op, "k": k.to_string(), "pos": pos}));
        let out: Result<Result<Option<Vec<u8>>, DeserializationError>, PanicInfo> = catch(|| match op {
            0 => r.read_slice(k).map(|x| Some(x.to_vec())),
            1 => r.check_eor(k).map(|_| None),
            2 => {
                if k > (1 << 20) && fits {
                    Ok(None)
                } else {
                    r.read_vec(k).map(Some)
                }
            },
            _ => r.check_eor(k).and_then(|_| r.read_slice(k).map(|x| Some(x.to_vec()))),
        });
        rec.redescribe(|| json!({"len": n, "ops": log}));
        let label = ["read_slice", "check_eor", "read_vec", "check_eor+read_slice"][op as usize];
        match out {
            Err(p) => return Err(Fail::new(p.key(), format!("SliceReader::{label}({k}) at pos {pos} of {n} bytes panicked at {}: {}", p.location, p.message))),
            Ok(Ok(got)) => {
                ensure!(fits, format!("slice-reader-accepted-oversized:{label}"), "{label}({k}) at pos {pos} of {n} bytes returned Ok");
                if let Some(g) = got {
                    ensure!(g == data[pos..pos + k], "slice-reader-wrong-bytes", "{label}({k}) returned wrong bytes");
                    pos += k;
                }
            },
            Ok(Err(e)) => {
                ensure!(!fits, format!("slice-reader-rejected-available:{label}"), "{label}({k}) at pos {pos} of {n} bytes returned {e:?}");
                ensure!(e == DeserializationError::UnexpectedEOF, "slice-reader-wrong-error", "{label}: {e:?}");
                break;
            },
        }
    }
    rec.nontrivial = n > 0;
    Ok(())
}
