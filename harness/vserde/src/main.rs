fn main() {
    vcore::main_with(vserde::props());
}
