//! C26 (primitive encodings) and C27 (ReadAdapter ≡ SliceReader).

use vcore::*;

mod c26;
mod c27;

fn main() {
    let props = vec![c26::prop(), c27::prop()];
    main_with(props);
}
