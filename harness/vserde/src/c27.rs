//! C27 — the streaming `ReadAdapter` behaves like the in-memory `SliceReader` for any chunking.
//!
//! Model-based: one operation sequence is interpreted in lock-step on both readers. The stream
//! under the adapter is a `Read` implementation that hands out the content in chunks of a
//! generated schedule. Oracle: identical values, identical errors; `check_eor` one-directional.

use std::io::Read;

use vcore::*;
use winter_utils::{ByteReader, DeserializationError, ReadAdapter, SliceReader};

pub fn prop() -> Prop {
    Prop {
        id: "C27",
        level: "exploration",
        rule: "case = (content bytes, chunk schedule of the underlying Read, operation sequence); exhaustive part: content length 0..=10 x 21 schedules over {1,2,3,5,whole} x all sequences of <= 3 ops from a 14-op set; random part: content <= 3000 bytes, 9 schedule shapes, <= 24 ops from the full op set. Non-trivial = some multi-byte read straddles a boundary between two stream chunks; distinct = hash of (content length, schedule, op sequence).",
        assumptions: vec![
            "release profile: debug_assert!-guarded unsafe copies in ReadAdapter::read_exact are compiled as shipped",
            "the property quantifies over every operation sequence, so a sequence goes on after a failed read: both readers must report the same error and keep coinciding afterwards (the ByteReader trait does not promise a roll-back, but the slice reader - the reference here - leaves its position where the failed operation found it, and the adapter is required to agree with it)",
            "check_eor is compared one-directionally, exactly as the property states it: the adapter may be optimistic, it must never report missing data that is available",
            "read_many element counts are bounded by 4096 so that its documented pre-allocation stays small",
        ],
        subs: vec![
            Sub::exhaustive("small_scope", small_scope),
            Sub::gen("random_histories", random_history, 160, 600_000, 20_000_000),
        ],
        required: vec!["straddle_read_array", "straddle_read_slice", "read_after_peek", "eof_mid_value", "slice_over_256", "compaction_path"],
        required_thorough: vec![],
    }
}

/// `Read` that returns the content in chunks following a schedule (cyclic), recording the
/// offsets at which each chunk started.
struct Chunked<'a> {
    data: &'a [u8],
    pos: usize,
    schedule: &'a [usize],
    idx: usize,
    boundaries: std::rc::Rc<std::cell::RefCell<Vec<usize>>>,
}
impl Read for Chunked<'_> {
    fn read(&mut self, buf: &mut [u8]) -> std::io::Result<usize> {
        let remaining = self.data.len() - self.pos;
        if remaining == 0 || buf.is_empty() {
            return Ok(0);
        }
        let want = if self.schedule.is_empty() { usize::MAX } else { self.schedule[self.idx % self.schedule.len()].max(1) };
        self.idx += 1;
        let n = want.min(remaining).min(buf.len());
        buf[..n].copy_from_slice(&self.data[self.pos..self.pos + n]);
        self.boundaries.borrow_mut().push(self.pos);
        self.pos += n;
        Ok(n)
    }
}

#[derive(Clone, Copy, Debug, PartialEq, Eq, Hash)]
enum Op {
    ReadU8,
    PeekU8,
    ReadBool,
    ReadU16,
    ReadU32,
    ReadU64,
    ReadU128,
    ReadUsize,
    ReadSlice(usize),
    ReadVec(usize),
    ReadArray(usize),
    HasMore,
    CheckEor(usize),
    ReadManyU32(usize),
    ReadString(usize),
}

#[derive(Debug, PartialEq, Eq)]
enum Out {
    Bytes(Vec<u8>),
    U(u128),
    B(bool),
    Unit,
    Err(DeserializationError),
}

fn wrap<T>(r: Result<T, DeserializationError>, f: impl FnOnce(T) -> Out) -> Out {
    match r {
        Ok(v) => f(v),
        Err(e) => Out::Err(e),
    }
}

const ARRAY_SIZES: &[usize] = &[0, 1, 2, 3, 4, 8, 16, 24, 31, 32, 33];

fn apply<R: ByteReader>(r: &mut R, op: Op) -> Out {
    match op {
        Op::ReadU8 => wrap(r.read_u8(), |v| Out::U(v as u128)),
        Op::PeekU8 => wrap(r.peek_u8(), |v| Out::U(v as u128)),
        Op::ReadBool => wrap(r.read_bool(), Out::B),
        Op::ReadU16 => wrap(r.read_u16(), |v| Out::U(v as u128)),
        Op::ReadU32 => wrap(r.read_u32(), |v| Out::U(v as u128)),
        Op::ReadU64 => wrap(r.read_u64(), |v| Out::U(v as u128)),
        Op::ReadU128 => wrap(r.read_u128(), Out::U),
        Op::ReadUsize => wrap(r.read_usize(), |v| Out::U(v as u128)),
        Op::ReadSlice(k) => wrap(r.read_slice(k).map(|s| s.to_vec()), Out::Bytes),
        Op::ReadVec(k) => wrap(r.read_vec(k), Out::Bytes),
        Op::ReadString(k) => wrap(r.read_string(k), |s| Out::Bytes(s.into_bytes())),
        Op::ReadArray(n) => match n {
            0 => wrap(r.read_array::<0>(), |a| Out::Bytes(a.to_vec())),
            1 => wrap(r.read_array::<1>(), |a| Out::Bytes(a.to_vec())),
            2 => wrap(r.read_array::<2>(), |a| Out::Bytes(a.to_vec())),
            3 => wrap(r.read_array::<3>(), |a| Out::Bytes(a.to_vec())),
            4 => wrap(r.read_array::<4>(), |a| Out::Bytes(a.to_vec())),
            8 => wrap(r.read_array::<8>(), |a| Out::Bytes(a.to_vec())),
            16 => wrap(r.read_array::<16>(), |a| Out::Bytes(a.to_vec())),
            24 => wrap(r.read_array::<24>(), |a| Out::Bytes(a.to_vec())),
            31 => wrap(r.read_array::<31>(), |a| Out::Bytes(a.to_vec())),
            32 => wrap(r.read_array::<32>(), |a| Out::Bytes(a.to_vec())),
            _ => wrap(r.read_array::<33>(), |a| Out::Bytes(a.to_vec())),
        },
        Op::HasMore => Out::B(r.has_more_bytes()),
        Op::CheckEor(k) => wrap(r.check_eor(k), |_| Out::Unit),
        Op::ReadManyU32(k) => wrap(r.read_many::<u32>(k), |v| Out::Bytes(v.iter().flat_map(|x| x.to_le_bytes()).collect())),
    }
}

struct Verdict {
    fail: Option<Fail>,
    classes: Vec<&'static str>,
    straddle: bool,
}

/// Runs `ops` on both readers in lock-step.
fn lockstep(content: &[u8], schedule: &[usize], ops: &[Op]) -> Verdict {
    let mut classes = vec![];
    let mut straddle = false;
    let mut slice = SliceReader::new(content);
    let bounds = std::rc::Rc::new(std::cell::RefCell::new(Vec::new()));
    let mut stream = Chunked { data: content, pos: 0, schedule, idx: 0, boundaries: bounds.clone() };
    // positions are tracked by the model to classify straddles
    let mut model_pos = 0usize;
    let res = catch(|| {
        let mut adapter = ReadAdapter::new(&mut stream);
        let mut prev_peek = false;
        for (i, op) in ops.iter().enumerate() {
            let expected = apply(&mut slice, *op);
            let got = match catch(|| apply(&mut adapter, *op)) {
                Ok(g) => g,
                Err(p) => {
                    return Some(Fail::new(
                        p.key(),
                        format!("ReadAdapter panicked at {} on op #{i} {op:?} (stream position {model_pos} of {}; chunk schedule {:?}): {}", p.location, content.len(), &schedule[..schedule.len().min(8)], p.message),
                    ));
                },
            };
            let consumed = match (&expected, op) {
                (Out::Err(_), _) => 0,
                (_, Op::PeekU8 | Op::HasMore | Op::CheckEor(_)) => 0,
                (Out::Bytes(b), _) => b.len(),
                (_, Op::ReadU8 | Op::ReadBool) => 1,
                (_, Op::ReadU16) => 2,
                (_, Op::ReadU32) => 4,
                (_, Op::ReadU64) => 8,
                (_, Op::ReadU128) => 16,
                (Out::U(_), Op::ReadUsize) => (content.get(model_pos).copied().unwrap_or(1).trailing_zeros() as usize + 1).min(9),
                _ => 0,
            };
            if let Op::CheckEor(k) = op {
                // adapter Err => slice Err ; slice Ok => adapter Ok
                let slice_ok = matches!(expected, Out::Unit);
                let adapter_ok = matches!(got, Out::Unit);
                if slice_ok && !adapter_ok {
                    return Some(Fail::new(
                        "check_eor-reports-missing-data-that-is-available",
                        format!("op #{i} check_eor({k}) at position {model_pos} of {}: slice reader Ok, adapter {got:?}", content.len()),
                    ));
                }
                if !slice_ok && adapter_ok {
                    classes.push("check_eor_optimistic");
                }
                if !slice_ok {
                    // trait: reader state after an error is unspecified for the slice reader? check_eor is &self: no state change
                }
                prev_peek = false;
                continue;
            }
            if expected != got {
                return Some(Fail::new(
                    format!("adapter-differs:{}", opname(op)),
                    format!(
                        "op #{i} {op:?} at stream position {model_pos} of {} (chunk schedule {:?}): SliceReader -> {}, ReadAdapter -> {}",
                        content.len(),
                        &schedule[..schedule.len().min(8)],
                        show(&expected),
                        show(&got)
                    ),
                ));
            }
            if matches!(expected, Out::Err(_)) {
                if model_pos < content.len() {
                    classes.push("eof_mid_value");
                }
                // the sequence goes on after a failed read: both readers reported the same error, and whatever
                // they do next must still coincide (the slice reader consumes nothing on a failed read)
                classes.push("continued_after_error");
                prev_peek = false;
                continue;
            }
            if consumed > 1 {
                // which chunk boundaries did the stream produce so far
                let b = bounds.borrow();
                if b.iter().any(|c| *c > model_pos && *c < model_pos + consumed) {
                    straddle = true;
                    match op {
                        Op::ReadArray(_) | Op::ReadU16 | Op::ReadU32 | Op::ReadU64 | Op::ReadU128 => classes.push("straddle_read_array"),
                        Op::ReadSlice(_) | Op::ReadVec(_) | Op::ReadUsize | Op::ReadString(_) => classes.push("straddle_read_slice"),
                        _ => {},
                    }
                }
                if consumed > 256 {
                    classes.push("slice_over_256");
                }
            }
            if prev_peek && consumed > 0 {
                classes.push("read_after_peek");
            }
            if matches!(op, Op::ReadSlice(_) | Op::ReadVec(_)) && model_pos >= 16 && consumed > 0 {
                classes.push("compaction_path");
            }
            prev_peek = matches!(op, Op::PeekU8);
            model_pos += consumed;
        }
        None
    });
    let fail = match res {
        Ok(f) => f,
        Err(p) => Some(Fail::new(p.key(), format!("panic outside op at {}: {}", p.location, p.message))),
    };
    Verdict { fail, classes, straddle }
}

fn opname(op: &Op) -> &'static str {
    match op {
        Op::ReadU8 => "read_u8",
        Op::PeekU8 => "peek_u8",
        Op::ReadBool => "read_bool",
        Op::ReadU16 => "read_u16",
        Op::ReadU32 => "read_u32",
        Op::ReadU64 => "read_u64",
        Op::ReadU128 => "read_u128",
        Op::ReadUsize => "read_usize",
        Op::ReadSlice(_) => "read_slice",
        Op::ReadVec(_) => "read_vec",
        Op::ReadArray(_) => "read_array",
        Op::HasMore => "has_more_bytes",
        Op::CheckEor(_) => "check_eor",
        Op::ReadManyU32(_) => "read_many",
        Op::ReadString(_) => "read_string",
    }
}

fn show(o: &Out) -> String {
    match o {
        Out::Bytes(b) => {
            let h: String = b.iter().take(24).map(|x| format!("{x:02x}")).collect();
            format!("Ok(bytes[{}] {h}{})", b.len(), if b.len() > 24 { ".." } else { "" })
        },
        other => format!("{other:?}"),
    }
}

// EXHAUSTIVE SMALL SCOPE
// ================================================================================================

fn small_scope(ex: &mut Ex) {
    let ops: Vec<Op> = vec![
        Op::ReadU8,
        Op::PeekU8,
        Op::ReadU16,
        Op::ReadU32,
        Op::ReadU64,
        Op::ReadUsize,
        Op::ReadSlice(1),
        Op::ReadSlice(3),
        Op::ReadSlice(6),
        Op::ReadArray(3),
        Op::ReadArray(0),
        Op::HasMore,
        Op::CheckEor(4),
        Op::ReadBool,
    ];
    let mut schedules: Vec<Vec<usize>> = vec![vec![]];
    for a in [1usize, 2, 3, 5] {
        schedules.push(vec![a]);
        for b in [1usize, 2, 3, 5] {
            if a != b {
                schedules.push(vec![a, b]);
            } else {
                schedules.push(vec![a, a, 4]);
            }
        }
    }
    let mut seqs: Vec<Vec<Op>> = vec![];
    for a in &ops {
        seqs.push(vec![*a]);
        for b in &ops {
            seqs.push(vec![*a, *b]);
            for c in &ops {
                seqs.push(vec![*a, *b, *c]);
            }
        }
    }
    ex.space(json!({"content_lengths": "0..=10 (two byte patterns)", "schedules": schedules.len(), "op_sequences": seqs.len(), "ops": ops.iter().map(|o| format!("{o:?}")).collect::<Vec<_>>()}));
    // two content patterns: first byte selects the vint length read by read_usize; bool bytes 0/1 appear
    let patterns: [fn(usize) -> u8; 2] = [|i| [0x01, 0x00, 0x06, 0x01, 0xfc, 0x10, 0x00, 0x01, 0x80, 0x07][i % 10], |i| (i as u8).wrapping_mul(37).wrapping_add(2)];
    let mut sampled = 0;
    for len in 0..=10usize {
        for pat in patterns {
            let content: Vec<u8> = (0..len).map(pat).collect();
            for sch in &schedules {
                for seq in &seqs {
                    let v = lockstep(&content, sch, seq);
                    ex.case(fnv_of(&(len, content.first(), sch, seq)), v.straddle);
                    for c in &v.classes {
                        ex.class(c, 1);
                    }
                    if v.straddle && sampled < 3 {
                        sampled += 1;
                        ex.sample(json!({"content_len": len, "schedule": sch, "ops": seq.iter().map(|o| format!("{o:?}")).collect::<Vec<_>>()}));
                    }
                    if let Some(f) = v.fail {
                        ex.fail(&f.key, f.msg, json!({"content": content, "schedule": sch, "ops": seq.iter().map(|o| format!("{o:?}")).collect::<Vec<_>>()}));
                    }
                }
            }
        }
    }
}

// RANDOM HISTORIES
// ================================================================================================

fn gen_schedule(s: &mut Src) -> Vec<usize> {
    match s.below(9) {
        0 => vec![1],
        1 => vec![3],
        2 => vec![5],
        3 => vec![255],
        4 => vec![256],
        5 => vec![257],
        6 => vec![], // whole
        7 => {
            let n = s.range(1, 6) as usize;
            (0..n).map(|_| s.range(1, 12) as usize).collect()
        },
        _ => {
            let n = s.range(1, 6) as usize;
            (0..n).map(|_| s.pick_copy(&[1usize, 2, 7, 15, 16, 17, 100, 255, 256, 300])).collect()
        },
    }
}

fn gen_op(s: &mut Src, remaining: usize) -> Op {
    let size = |s: &mut Src| -> usize {
        match s.below(8) {
            0 => s.below(4) as usize,
            1 => s.below(40) as usize,
            2 => s.pick_copy(&[255usize, 256, 257, 300, 512, 600, 1000]),
            3 => remaining,
            4 => remaining + 1,
            5 => remaining.saturating_sub(1),
            _ => s.below(remaining as u64 + 2) as usize,
        }
    };
    match s.weighted(&[6, 5, 2, 4, 4, 5, 3, 4, 10, 4, 10, 4, 5, 2, 1]) {
        0 => Op::ReadU8,
        1 => Op::PeekU8,
        2 => Op::ReadBool,
        3 => Op::ReadU16,
        4 => Op::ReadU32,
        5 => Op::ReadU64,
        6 => Op::ReadU128,
        7 => Op::ReadUsize,
        8 => Op::ReadSlice(size(s)),
        9 => Op::ReadVec(size(s)),
        10 => Op::ReadArray(s.pick_copy(ARRAY_SIZES)),
        11 => Op::HasMore,
        12 => Op::CheckEor(size(s)),
        13 => Op::ReadManyU32(size(s).min(4096) / 4),
        _ => Op::ReadString(size(s).min(64)),
    }
}

fn random_history(s: &mut Src, rec: &mut Rec) -> CaseResult {
    let len = match s.below(6) {
        0 => s.below(20) as usize,
        1 => s.below(300) as usize,
        2 => s.pick_copy(&[255usize, 256, 257, 511, 512, 513, 1000]),
        _ => s.below(3000) as usize,
    };
    // content: mostly ascii so read_string succeeds sometimes; bytes vary
    let seed = s.u64();
    let ascii = s.bool();
    let content: Vec<u8> = (0..len)
        .map(|i| {
            let x = (seed.wrapping_mul(6364136223846793005).wrapping_add(i as u64 * 1442695040888963407) >> 33) as u8;
            if ascii {
                x & 0x7f
            } else {
                x
            }
        })
        .collect();
    let schedule = gen_schedule(s);
    let nops = s.range(1, 24) as usize;
    // ops are generated against a model position so that sizes relate to what remains
    let mut ops = vec![];
    let mut model = 0usize;
    for _ in 0..nops {
        let op = gen_op(s, len - model.min(len));
        let adv = match op {
            Op::ReadU8 | Op::ReadBool => 1,
            Op::ReadU16 => 2,
            Op::ReadU32 => 4,
            Op::ReadU64 => 8,
            Op::ReadU128 => 16,
            Op::ReadUsize => 1,
            Op::ReadSlice(k) | Op::ReadVec(k) | Op::ReadString(k) => k,
            Op::ReadArray(n) => n,
            Op::ReadManyU32(k) => 4 * k,
            _ => 0,
        };
        model = (model + adv).min(len);
        ops.push(op);
    }
    rec.set_fp(&(len, seed, &schedule, &ops));
    rec.describe(|| json!({"content_len": len, "schedule": schedule, "ops": ops.iter().map(|o| format!("{o:?}")).collect::<Vec<_>>()}));
    let v = lockstep(&content, &schedule, &ops);
    for c in &v.classes {
        rec.class(c);
    }
    if v.straddle {
        rec.nontrivial();
    }
    rec.weight = ops.len() as u64;
    match v.fail {
        Some(f) => Err(f),
        None => Ok(()),
    }
}
