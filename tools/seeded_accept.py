#!/usr/bin/env python3
"""seeded_accept.py <id> <package> <test-name> <demo path in tree> [cargo feature args]
Confirms a sub-agent's seeded change in its scratch worktree /tmp/wt/<id> with tools/seeded_verify.sh and, if
confirmed (demo fails with / passes without the change, existing suite green), stores it as /verif/seeded/<id>/."""
import json, os, shutil, subprocess, sys
pid, pkg, test, loc = sys.argv[1:5]
feat = " ".join(sys.argv[5:])
wt = f"/tmp/wt/{pid}"
env = dict(os.environ, SEEDED_FEATURES=feat)
r = subprocess.run(["/verif/tools/seeded_verify.sh", pid, wt, pkg, test, "--suite"], capture_output=True, text=True, env=env)
out = r.stdout
print(out.strip())
ok = "demo_with_change_exit=101 demo_without_change_exit=0" in out and "suite_with_change_exit=0" in out and "failed_lines=0" in out
if not ok:
    print(pid, "NOT CONFIRMED"); sys.exit(1)
d = f"/verif/seeded/{pid}"
os.makedirs(d + "/demo", exist_ok=True)
shutil.copy(f"{wt}/_seeded/patch.diff", d + "/patch.diff")
shutil.copy(f"{wt}/{loc}", d + "/demo/" + os.path.basename(loc))
if os.path.exists(f"{wt}/_seeded/demo.md"):
    shutil.copy(f"{wt}/_seeded/demo.md", d + "/demo/demo.md")
am = json.load(open(f"{wt}/_seeded/meta.json"))
cmd = f"cargo test --offline --release -p {pkg} {feat} --test {test}".replace("  ", " ")
meta = {
  "property": pid,
  "origin": "written by a fresh sub-agent that was given only the property text and a scratch worktree of /repo (HEAD c8cf992)",
  "change": am.get("summary", ""), "needs_to_manifest": am.get("needs_to_manifest", ""), "files_changed": am.get("files_changed"),
  "demo": {"file": "demo/" + os.path.basename(loc), "place_at": loc, "run": cmd, "env": os.environ.get("SEEDED_ENV", "")},
  "confirmed_by_me": {"where": f"scratch worktree {wt} (removed afterwards), own target dir", "script": "tools/seeded_verify.sh",
    "ran": [cmd + "  (change applied) -> exit 101 (demo fails)", "git apply -R patch.diff; same command -> exit 0 (demo passes); git apply patch.diff",
            "demo moved aside; cargo test --offline --workspace --no-fail-fast (change applied) -> exit 0, 23 'test result: ok' lines, 0 FAILED"]},
}
json.dump(meta, open(d + "/meta.json", "w"), indent=1)
print(pid, "stored")
