#!/usr/bin/env python3
"""Sensitivity pass: reverts each `fix:` commit of /repo in the working tree (uncommitted), runs the
checks that are expected to notice, records exit codes, and restores the tree. Results go to
/verif/seeded/fix-reverts.json (one entry per reverted fix). Evidence / replay files of these runs
are written to a scratch VERIF_OUT_DIR, not into /verif."""
import json, os, subprocess, sys, shutil, time
REPO = "/repo"
OUT = "/var/tmp/verif_sens"
EXPECT = [  # substring of commit subject -> checks expected to report a violation
    ("buffer_at_least compared", ["C27"]), ("read_array reported EOF", ["C27"]), ("skipped newly buffered", ["C27"]),
    ("check_eor overflowed", ["C26"]), ("read_many pre-allocated", ["C26"]),
    ("interpolate panicked", ["C13"]), ("get_power_series(b, 0)", ["C14"]),
    ("mul_small returned", ["C10"]), ("f64 double()", ["C10", "C13"]), ("f62 inv()", ["C10"]),
    ("Rp64_256::hash and Rp62_248::hash", ["C16", "C17"]), ("draw_integers(0", ["C20"]),
    ("FRI verifier never checked", ["C09", "C03"]), ("Table::from_bytes rejected", ["C01"]),
    ("rejected a trace of 255", ["C07"]), ("disagreed about random elements", ["C07", "C01"]),
    ("hash rate of 256", ["C07"]), ("num_constraint_composition_columns", ["C01", "C23"]),
    ("get_root ignored leaves", ["C04"]), ("BatchMerkleProof::read_from pre-allocated", ["C05"]),
    ("trace length exponent of 64", ["C05"]), ("ProofOptions::read_from panicked", ["C05"]),
    ("OodFrame::parse panicked", ["C05"]), ("partition exponent of 64", ["C05"]),
    ("claims zero unique queries", ["C05"]), ("different base field", ["C05"]),
    ("fewer FRI layers", ["C05"]), ("at least as many queries", ["C05"]), ("transposition left rows uninitialized", ["C28", "C06"]), ("nodes that were never used", ["C04", "C19"]), ("constraint counts which the constructor rejects", ["C04"]), ("exceeds the field's two-adicity", ["C05"]),
]
def sh(cmd, **kw):
    return subprocess.run(cmd, shell=True, capture_output=True, text=True, **kw)
log = sh(f"git -C {REPO} log --reverse --format='%h\t%s' c85060a..HEAD").stdout.strip().splitlines()
only = sys.argv[1:] 
results = json.load(open('/verif/seeded/fix-reverts.json')) if os.path.exists('/verif/seeded/fix-reverts.json') else []
os.makedirs(OUT, exist_ok=True)
for line in log:
    h, subj = line.split("\t", 1)
    checks = next((c for s, c in EXPECT if s in subj), None)
    if checks is None:
        continue
    if only and h not in only:
        continue
    assert sh(f"git -C {REPO} status --porcelain").stdout.strip() == "", "repo working tree not clean"
    r = sh(f"git -C {REPO} revert --no-commit {h}")
    if r.returncode != 0:
        sh(f"git -C {REPO} revert --abort; git -C {REPO} reset -q --hard HEAD")
        # fall back to applying the reverse diff
        r = sh(f"git -C {REPO} diff {h} {h}^ | git -C {REPO} apply")
        if r.returncode != 0:
            results = [r for r in results if r.get('commit') != h] + [{"commit": h, "subject": subj, "error": "cannot revert cleanly: " + r.stderr[:200]}]
            sh(f"git -C {REPO} reset -q --hard HEAD")
            continue
    entry = {"commit": h, "subject": subj, "checks": {}}
    for c in checks:
        shutil.rmtree(OUT, ignore_errors=True); os.makedirs(OUT)
        shutil.copy("/verif/known_findings.json", OUT)
        t0 = time.time()
        env = dict(os.environ, VERIF_OUT_DIR=OUT)
        p = subprocess.run(["/verif/check", c, "--tier", "quick"], capture_output=True, text=True, env=env, cwd="/verif")
        viol = [l for l in p.stdout.splitlines() if l.startswith("VIOLATION")]
        keys = [l.strip() for l in p.stderr.splitlines() if l.strip().startswith("sub=")]
        entry["checks"][c] = {"exit": p.returncode, "violations": len(viol), "first": (keys[0][:300] if keys else ""), "wall_s": round(time.time() - t0, 1)}
        print(h, c, "exit", p.returncode, (keys[0][:160] if keys else ""), flush=True)
    sh(f"git -C {REPO} reset -q --hard HEAD")
    results = [r for r in results if r.get('commit') != h] + [entry]
    json.dump(results, open("/verif/seeded/fix-reverts.json", "w"), indent=1)
shutil.rmtree(OUT, ignore_errors=True)
print("done")
