#!/usr/bin/env python3
"""Runs the checks against each seeded change: git -C /repo apply seeded/<id>/patch.diff, run the
mapped ./check commands (evidence/replays go to a scratch VERIF_OUT_DIR), undo with
git -C /repo checkout -- . ; results -> seeded/results.json.
usage: seeded_run.py [--tier quick|thorough] [id ...]"""
import json, os, subprocess, sys, shutil, time
REPO = "/repo"; OUT = "/var/tmp/verif_seeded"
CHECKS = {  # seeded id -> checks expected to notice (first = the property it was written against)
    "C01": ["C01"], "C03": ["C03", "C09"], "C05": ["C05"], "C06": ["C06"], "C09": ["C09"], "C10": ["C10"],
    "C12": ["C12"], "C14": ["C14"], "C16": ["C16"], "C18": ["C18"], "C19": ["C19"], "C22": ["C22", "C01"], "C27": ["C27"],
    "C19c": ["C19", "C18"], "C02": ["C02"], "C04": ["C04"], "C07": ["C07"], "C08": ["C08"], "C13": ["C13"], "C20": ["C20"], "C23": ["C23", "C01"], "C28": ["C28"],
}
args = sys.argv[1:]; tier = "quick"
if args[:1] == ["--tier"]:
    tier = args[1]; args = args[2:]
ids = args or sorted(d for d in os.listdir("/verif/seeded") if os.path.isfile(f"/verif/seeded/{d}/patch.diff"))
def sh(c): return subprocess.run(c, shell=True, capture_output=True, text=True)
respath = "/verif/seeded/results.json"
results = json.load(open(respath)) if os.path.exists(respath) else {}
for sid in ids:
    assert sh(f"git -C {REPO} status --porcelain").stdout.strip() == "", "repo working tree not clean"
    r = sh(f"git -C {REPO} apply /verif/seeded/{sid}/patch.diff")
    if r.returncode != 0:
        print(sid, "patch does not apply:", r.stderr[:200]); continue
    try:
        for c in CHECKS.get(sid, [sid[:3]]):
            shutil.rmtree(OUT, ignore_errors=True); os.makedirs(OUT)
            shutil.copy("/verif/known_findings.json", OUT)
            t0 = time.time()
            p = subprocess.run(["/verif/check", c, "--tier", tier], capture_output=True, text=True,
                               env=dict(os.environ, VERIF_OUT_DIR=OUT), cwd="/verif")
            keys = [l.strip() for l in p.stderr.splitlines() if l.strip().startswith("sub=")]
            viol = [l for l in p.stdout.splitlines() if l.startswith("VIOLATION")]
            results.setdefault(sid, {})[f"{c}:{tier}"] = {"exit": p.returncode, "violations": len(viol),
                "first": keys[0][:400] if keys else "", "wall_s": round(time.time() - t0, 1)}
            print(sid, c, tier, "exit", p.returncode, (keys[0][:200] if keys else p.stderr[-300:].replace("\n", " | ")), flush=True)
    finally:
        sh(f"git -C {REPO} checkout -- .")
    json.dump(results, open(respath, "w"), indent=1, sort_keys=True)
shutil.rmtree(OUT, ignore_errors=True)
