#!/usr/bin/env bash
# Confirms a seeded change left by a sub-agent in a scratch worktree:
#   seeded_verify.sh <id> <worktree> <package> <test-name> [--suite]
# 1. demo with the change must FAIL, 2. demo without the change (patch reversed) must PASS,
# 3. (--suite) the existing workspace tests must pass with the change (demo moved aside).
set -u
ID=$1; WT=$2; PKG=$3; TEST=$4; SUITE=${5:-}
export CARGO_TARGET_DIR=$WT/target CARGO_NET_OFFLINE=true
cd "$WT" || exit 2
run_demo() { cargo test --offline --release -p "$PKG" ${SEEDED_FEATURES:-} --test "$TEST" >"$WT/_verify_$1.log" 2>&1; echo $?; }
W=$(run_demo with)
git apply -R "$WT/_seeded/patch.diff" || exit 2   # (git stash is shared between worktrees)
WO=$(run_demo without)
git apply "$WT/_seeded/patch.diff" || exit 2
echo "$ID demo_with_change_exit=$W demo_without_change_exit=$WO"
if [ "$SUITE" = "--suite" ]; then
  DEMO=$(git status --porcelain | grep '^??' | grep -v _seeded | grep -v '\.log' | awk '{print $2}')
  mkdir -p "$WT/_aside"; for d in $DEMO; do mv "$WT/$d" "$WT/_aside/$(echo $d | tr / _)"; done
  cargo test --offline --workspace --no-fail-fast >"$WT/_verify_suite.log" 2>&1; S=$?
  for d in $DEMO; do mv "$WT/_aside/$(echo $d | tr / _)" "$WT/$d"; done
  echo "$ID suite_with_change_exit=$S ok_lines=$(grep -c 'test result: ok' $WT/_verify_suite.log) failed_lines=$(grep -c 'test result: FAILED' $WT/_verify_suite.log)"
fi
