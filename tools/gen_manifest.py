#!/usr/bin/env python3
"""Generates /verif/MANIFEST.json from the table below (kept in one place so it stays valid)."""
import json, os, subprocess, sys
HERE = os.path.dirname(os.path.dirname(os.path.abspath(__file__)))

# id -> (level, technique, text, note, design_ref)
CHECKS = {}
def claim(id, level, technique, text, note):
    CHECKS[id] = (level, technique, text, note)

exec(open(os.path.join(HERE, "tools", "claims.py")).read())

FUZZ_SUFFIX = "; thorough tier additionally runs a coverage-guided libFuzzer campaign (ASan, release profile) that drives the same generated sub-checks and oracles through the choice-vector bridge, crashes converted to replay files"
props = [json.loads(l) for l in open(os.path.join(HERE, "properties.jsonl"))]
checks, na = [], []
for p in props:
    i = p["id"]
    if i in CHECKS:
        level, technique, text, note = CHECKS[i]
        checks.append({
            "property_id": i,
            "quick_cmd": f"./check {i} --tier quick",
            "thorough_cmd": f"./check {i} --tier thorough",
            "evidence_file": f"/verif/evidence/{i}.json",
            "replay_cmd_template": f"./check {i} --replay {{path}}",
            "engine": "vcore",
            "level_claimed": {"category": level, "text": text, "design_ref": f"DESIGN.md section 4, {i}"},
            "level_note": note,
            "technique": technique + (FUZZ_SUFFIX if i != "C06" else ""),
        })
    else:
        na.append({"property_id": i, "reason": NOT_BUILT.get(i, "check not built yet; planned as described in DESIGN.md section 4 (property-based testing applies, nothing about the property prevents it)")})

fix_commits = subprocess.run(["git", "-C", "/repo", "log", "--format=%h %s", "c85060a..HEAD"], capture_output=True, text=True).stdout.strip().splitlines()
manifest = {
    "version": 1,
    "setup_cmd": "cd /verif/harness && CARGO_NET_OFFLINE=true cargo build --release --workspace && CARGO_NET_OFFLINE=true cargo build --release -p vdet --features serial && CARGO_NET_OFFLINE=true cargo build --release -p vdet --features concurrent --target-dir /verif/harness/target-concurrent && CARGO_NET_OFFLINE=true cargo build --release -p vdet --features async --target-dir /verif/harness/target-async && CARGO_NET_OFFLINE=true cargo +nightly fuzz build -O --fuzz-dir /verif/harness/fuzz --target-dir /verif/harness/target bridge",
    "hooks": {
        "guard": "winterfell_verif",
        "enable": "no hooks are used: every check reaches the code through public API (DESIGN.md section 8); the name is reserved (RUSTFLAGS=--cfg winterfell_verif)",
        "baseline_off_cmd": "cd /repo && cargo test --workspace --no-fail-fast --offline",
        "source_commits": [],
        "add_only": True,
    },
    "engines": [
        {"name": "vcore", "path": "/verif/harness/vcore", "serves_properties": sorted(CHECKS.keys()),
         "kind_free_text": "proptest-driven choice-sequence engine: cases are u64 vectors generated and shrunk by proptest (fixed ChaCha seeds derived from VERIF_SEED), decoded by per-property generators, checked against explicit oracles; exhaustive small-scope enumeration where stated; worker-subprocess isolation with RLIMIT_AS and per-case watchdog for crash/hang properties; replay files are the shrunk choice vectors"},
        {"name": "vfuzz", "path": "/verif/harness/fuzz", "serves_properties": sorted(k for k in CHECKS.keys() if k != "C06"),
         "kind_free_text": "cargo-fuzz / libFuzzer target `bridge` (built -O with AddressSanitizer): fuzzer bytes are decoded into the choice vector of one generated sub-check (VERIF_FUZZ_TARGET=<Cxx>/<sub>), which runs in-process with its oracle; corpus seeded with generated cases; saved inputs are converted to replay files and decided by the release-profile check binary (tools/fuzz_stage.py, thorough tier only)"},
    ],
    "checks": checks,
    "not_applicable": na,
    "notes": "Fix commits in /repo (genuine defects found by the checks, see known_findings.json and DESIGN.md section 5): " + "; ".join(fix_commits),
}
json.dump(manifest, open(os.path.join(HERE, "MANIFEST.json"), "w"), indent=1)
print(f"MANIFEST.json: {len(checks)} checks, {len(na)} not_applicable")
