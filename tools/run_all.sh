#!/usr/bin/env bash
# runs every check of one tier sequentially; one summary line per property
TIER=${1:-quick}; shift || true
cd "$(dirname "$0")/.."
rc=0
for i in $(seq -w 1 29); do
  out=$(./check C$i --tier $TIER 2>&1); e=$?
  echo "C$i exit=$e $(echo "$out" | grep -E "^C$i tier=" | cut -c1-160)"
  [ $e -ne 0 ] && { echo "$out" | grep -E "VIOLATION|INCONCL|sub=|error" | head -5; rc=1; }
done
exit $rc
