#!/usr/bin/env python3
"""Coverage-guided stage of the thorough tier (DESIGN.md section 11).

  fuzz_stage.py <Cxx> <check-binary> [--seconds S] [--subs a,b]

For every generated sub-check of the property: seed a fresh corpus with generated cases
(`<bin> --emit-corpus`), run the libFuzzer bridge (harness/fuzz, built `-O` = the deciding profile +
ASan) on all cores with a fixed -seed derived from VERIF_SEED, then convert every saved crash /
timeout input back into a choice vector and let the release-profile check binary decide
(`--replay`). Confirmed failures are stored as replay files under $VERIF_DIR/replays/<Cxx>/ — the
check binary, which runs right after this stage, replays them and prints the VIOLATION lines.
AddressSanitizer reports (memory errors that the release binary survives) are violations reported
here. A budget running out is just the end of the stage. Exit: 0 ok, 1 violation printed, 2 infra.
Summary -> $VERIF_FUZZ_SUMMARY (merged into the evidence file by the check binary)."""
import glob, hashlib, json, os, re, shutil, subprocess, sys, time

HERE = os.path.dirname(os.path.dirname(os.path.abspath(__file__)))
FUZZ = f"{HERE}/harness/fuzz"
TARGET_DIR = f"{HERE}/harness/target"
BRIDGE = f"{TARGET_DIR}/x86_64-unknown-linux-gnu/release/bridge"
VDIR = os.environ.get("VERIF_DIR", HERE)

def to_choices(raw_prefix, data: bytes):
    if raw_prefix is None:
        out = []
        for i in range(0, len(data), 8):
            ch = data[i:i + 8].ljust(8, b"\0")
            out.append(int.from_bytes(ch, "big"))
        return out
    p = min(raw_prefix, len(data))
    out = [(b << 56) | (1 << 55) for b in data[:p]]
    tail = data[p:]
    out.append((8 - len(tail) % 8) % 8)
    for i in range(0, len(tail), 8):
        out.append(int.from_bytes(tail[i:i + 8].ljust(8, b"\0"), "little"))
    return out

def main():
    prop, binary = sys.argv[1], sys.argv[2]
    seconds = float(os.environ.get("VERIF_FUZZ_SECONDS", "45"))
    only = None
    a = sys.argv[3:]
    while a:
        if a[0] == "--seconds": seconds = float(a[1]); a = a[2:]
        elif a[0] == "--subs": only = a[1].split(","); a = a[2:]
        else: print("unknown arg", a[0], file=sys.stderr); return 2
    seed = int(os.environ.get("VERIF_SEED", "0") or 0)
    jobs = int(os.environ.get("VERIF_THREADS", "16"))
    env = dict(os.environ, CARGO_NET_OFFLINE="true", VERIF_DIR=VDIR)
    t_start = time.time()
    b = subprocess.run(["cargo", "+nightly", "fuzz", "build", "-O", "--fuzz-dir", FUZZ, "--target-dir", TARGET_DIR, "bridge"],
                       cwd=f"{HERE}/harness", env=env, capture_output=True, text=True)
    if b.returncode != 0 or not os.path.exists(BRIDGE):
        print("fuzz stage: build of the libFuzzer bridge failed (stage skipped, inconclusive):", file=sys.stderr)
        print(b.stderr[-2000:], file=sys.stderr)
        return 2
    subs = [s for s in json.loads(subprocess.run([binary, "--list"], capture_output=True, text=True).stdout)
            if s["property"] == prop and (only is None or s["sub"] in only)]
    summary = {"engine": "libFuzzer (cargo-fuzz -O, AddressSanitizer) driving the same sub-check functions and oracles "
                         "through the choice-vector bridge", "seconds_per_target": seconds, "jobs": jobs, "targets": []}
    rc = 0
    work_root = f"{FUZZ}/corpus-run/{prop}"
    shutil.rmtree(work_root, ignore_errors=True)
    for s in subs:
        name = s["sub"]
        work = f"{work_root}/{name}"; corpus = f"{work}/corpus"; arts = f"{work}/artifacts/"
        os.makedirs(corpus); os.makedirs(arts)
        subprocess.run([binary, "--prop", prop, "--sub", name, "--emit-corpus", corpus, "--count", "48", "--seed", str(seed)],
                       env=env, capture_output=True)
        seeded = len(os.listdir(corpus))
        open(f"{corpus}/empty", "wb").close()
        max_len = 1 << 16 if s["raw_prefix"] is not None else max(8, s["choices"] * 8)
        tmo = max(25, int(s["timeout_ms"] / 1000 * 5))
        cmd = [BRIDGE, corpus, f"-max_total_time={int(seconds)}", f"-seed={(seed * 7919 + 1) % (2**31 - 1) or 1}",
               f"-max_len={max_len}", "-len_control=0", f"-timeout={tmo}", "-rss_limit_mb=6144", "-malloc_limit_mb=4096",
               f"-artifact_prefix={arts}", f"-jobs={jobs}", f"-workers={jobs}", "-print_final_stats=1", "-verbosity=1"]
        t0 = time.time()
        p = subprocess.run(cmd, cwd=work, env=dict(env, VERIF_FUZZ_TARGET=f"{prop}/{name}", VERIF_TIER="quick",
                           ASAN_OPTIONS="detect_leaks=0:allocator_may_return_null=0:abort_on_error=1"),
                           capture_output=True, text=True)
        execs = 0; cov = 0; feats = 0; asan = []
        for lg in glob.glob(f"{work}/fuzz-*.log"):
            txt = open(lg, errors="replace").read()
            m = re.findall(r"stat::number_of_executed_units:\s+(\d+)", txt)
            if m: execs += int(m[-1])
            else:
                m = re.findall(r"^#(\d+)\s", txt, re.M)
                if m: execs += int(m[-1])
            m = re.findall(r"cov: (\d+) ft: (\d+)", txt)
            if m: cov = max(cov, int(m[-1][0])); feats = max(feats, int(m[-1][1]))
            if "ERROR: AddressSanitizer" in txt and "FUZZ-FAIL" not in txt:
                asan.append(lg)
        tgt = {"sub": name, "seed_corpus_files": seeded, "executions": execs, "edge_coverage": cov, "features": feats,
               "final_corpus_files": len(os.listdir(corpus)), "wall_s": round(time.time() - t0, 1),
               "saved_inputs": 0, "confirmed": 0, "not_reproduced_on_release_binary": 0, "known_findings": 0, "asan_reports": 0}
        seen_keys = set()
        for art in sorted(glob.glob(arts + "*")):
            tgt["saved_inputs"] += 1
            data = open(art, "rb").read()
            choices = to_choices(s["raw_prefix"], data)
            h = hashlib.sha1(data).hexdigest()[:12]
            tmp = f"{work}/replay-{h}.json"
            json.dump({"property": prop, "sub": name, "choices": choices, "origin": "libFuzzer " + os.path.basename(art)}, open(tmp, "w"))
            r = subprocess.run([binary, "--prop", prop, "--replay", tmp], env=env, capture_output=True, text=True)
            if r.returncode == 1:
                key = re.findall(r"key=(.*?) ::", r.stderr)
                k = key[0] if key else h
                if k in seen_keys:
                    continue
                seen_keys.add(k)
                tgt["confirmed"] += 1
                dst = f"{VDIR}/replays/{prop}"
                os.makedirs(dst, exist_ok=True)
                shutil.copy(tmp, f"{dst}/fuzz-{name}-{h}.json")
            elif "KNOWN-FINDING" in r.stdout:
                tgt["known_findings"] += 1
            else:
                tgt["not_reproduced_on_release_binary"] += 1
        for lg in asan:
            # a memory error under ASan that is not one of the harness' own aborts
            crash = re.findall(r"Test unit written to (\S+)", open(lg, errors="replace").read())
            keep = f"{VDIR}/replays/{prop}"
            os.makedirs(keep, exist_ok=True)
            dst = f"{keep}/asan-{name}-{os.path.basename(crash[-1]) if crash else 'unknown'}.bin"
            if crash and os.path.exists(crash[-1]):
                shutil.copy(crash[-1], dst)
            shutil.copy(lg, dst + ".log")
            tgt["asan_reports"] += 1
            print(f"VIOLATION property={prop} replay={dst}")
            print(f"  AddressSanitizer report while fuzzing {prop}/{name}: rerun with VERIF_FUZZ_TARGET={prop}/{name} {BRIDGE} {dst}", file=sys.stderr)
            rc = 1
        summary["targets"].append(tgt)
        print(f"[fuzz {prop}/{name}] execs={execs} cov={cov} corpus={tgt['final_corpus_files']} saved={tgt['saved_inputs']} "
              f"confirmed={tgt['confirmed']} asan={tgt['asan_reports']} {tgt['wall_s']}s", file=sys.stderr)
    summary["executions"] = sum(t["executions"] for t in summary["targets"])
    summary["wall_s"] = round(time.time() - t_start, 1)
    out = os.environ.get("VERIF_FUZZ_SUMMARY")
    if out:
        json.dump(summary, open(out, "w"), indent=1)
    shutil.rmtree(work_root, ignore_errors=True)
    return rc

if __name__ == "__main__":
    sys.exit(main())
